"""Virtual-time asyncio loop and the seams the simulator owns.

SimLoop is a BaseEventLoop without selector, threads, sockets or signals. Its
clock is a float that only moves when nothing is runnable: it jumps to the next
timer. The ready queue stays FIFO (asyncio guarantees that and basana relies on
it), so the schedules explored are exactly those real asyncio can produce; what
varies is where tasks suspend, how long timers and peers take, and the iteration
order of sets of tasks / producers (seeded through __hash__).
"""
import asyncio
import datetime
import logging
import random
import time as _time
import uuid as _uuid
import warnings

UTC = datetime.timezone.utc
_MAX_SELECT = 24 * 3600.0


class SimDeadlock(Exception):
    """Nothing runnable and no timer pending."""


class SimLimit(Exception):
    """Step or virtual-time cap exceeded."""


class _NoSelector:
    def __init__(self, loop):
        self.loop = loop

    def select(self, timeout=None):
        loop = self.loop
        if timeout is None:
            raise SimDeadlock("no runnable task and no timer")
        if timeout > 0:
            new = loop._now + timeout
            sched = loop._scheduled
            if sched and timeout < _MAX_SELECT:
                # land exactly on the timer (no float drift)
                new = max(loop._now, sched[0]._when)
            loop._now = new
            if loop.max_vtime is not None and loop._now > loop.max_vtime:
                raise SimLimit(f"virtual time cap {loop.max_vtime} exceeded")
        return []

    def close(self):
        pass


class SimLoop(asyncio.BaseEventLoop):
    def __init__(self, wall_offset=1_700_000_000.0, max_steps=5_000_000, max_vtime=None):
        super().__init__()
        self._now = 0.0
        self.wall_offset = wall_offset
        self.skew = 0.0               # wall-clock step faults add to this
        self._selector = _NoSelector(self)
        self._clock_resolution = 1e-9
        self.steps = 0
        self.max_steps = max_steps
        self.max_vtime = max_vtime
        self.late_rng = None          # random.Random -> timers may fire late
        self.late_max = 0.0
        self.late_prob = 0.0
        self.late_fired = 0
        self.task_ctr = 0
        self.salt = 0

    def time(self):
        return self._now

    def wall(self):
        return self.wall_offset + self._now + self.skew

    def _process_events(self, event_list):
        pass

    def _write_to_self(self):
        pass

    def _run_once(self):
        self.steps += 1
        if self.steps > self.max_steps:
            raise SimLimit(f"step cap {self.max_steps} exceeded")
        super()._run_once()

    def call_at(self, when, callback, *args, context=None):
        rng = self.late_rng
        if rng is not None and rng.random() < self.late_prob:
            when += rng.random() * self.late_max
            self.late_fired += 1
        return super().call_at(when, callback, *args, context=context)


class SimTask(asyncio.Task):
    def __init__(self, coro, *, loop=None, name=None, context=None, eager_start=False):
        loop.task_ctr += 1
        self._sim_id = loop.task_ctr
        self._sim_hash = (self._sim_id * 2654435761 + loop.salt * 40503) % ((1 << 61) - 1)
        super().__init__(coro, loop=loop, name=name or f"sim-{self._sim_id}", context=context)

    def __hash__(self):
        return self._sim_hash


def _task_factory(loop, coro, **kw):
    return SimTask(coro, loop=loop, **kw)


# ---------------------------------------------------------------- seams
_real_time = _time.time
_real_uuid4 = _uuid.uuid4
_active = None          # the SimLoop of the run in progress (one per process)
_uuid_rng = None
_prod_ctr = 0
_installed = False
_real_utc_now = None
_real_producer_hash = None


def _sim_time():
    loop = _active
    if loop is None:
        return _real_time()
    return loop.wall()


def _sim_uuid4():
    if _active is None:
        return _real_uuid4()
    return _uuid.UUID(int=_uuid_rng.getrandbits(128), version=4)


def _sim_utc_now():
    loop = _active
    if loop is None:
        return _real_utc_now()
    return datetime.datetime.fromtimestamp(loop.wall(), tz=UTC)


def _producer_hash(self):
    loop = _active
    if loop is None:
        return object.__hash__(self)
    h = self.__dict__.get("_sim_hash")
    if h is None:
        global _prod_ctr
        _prod_ctr += 1
        h = (_prod_ctr * 2654435761 + loop.salt * 7919) % ((1 << 61) - 1)
        self.__dict__["_sim_hash"] = h
    return h


def install_seams():
    """Patch the process-wide seams once. They fall through to the real thing
    whenever no simulated run is active."""
    global _installed, _real_utc_now, _real_producer_hash
    if _installed:
        return
    from basana.core import dt as bdt, event
    _real_utc_now = bdt.utc_now
    _real_producer_hash = event.Producer.__hash__
    _time.time = _sim_time
    _uuid.uuid4 = _sim_uuid4
    bdt.utc_now = _sim_utc_now
    event.Producer.__hash__ = _producer_hash
    import sys
    # coroutines abandoned with a closed loop (runs cut by a cap or a detected hang) complain when collected
    sys.unraisablehook = lambda *a, **k: None
    warnings.filterwarnings("ignore", category=RuntimeWarning)
    warnings.filterwarnings("ignore", category=DeprecationWarning)
    warnings.filterwarnings("ignore", category=ResourceWarning)
    # Production-like logging: default WARNING threshold, records are created
    # (so a broken record factory is observable) but written nowhere.
    root = logging.getLogger()
    for h in list(root.handlers):
        root.removeHandler(h)
    root.addHandler(logging.NullHandler())
    root.setLevel(logging.WARNING)
    logging.lastResort = None
    logging.getLogger("asyncio").setLevel(logging.CRITICAL + 1)
    _installed = True


def _wall_alarm(signum, frame):
    # fires after `wall_limit` seconds of CPU time and then every half second. A run that is merely slow keeps turning
    # the event loop: it is left alone (the step cap bounds it). Only code that has not let the loop take a single step
    # between two ticks is stuck.
    loop = _active
    if loop is not None:
        last = getattr(loop, "_alarm_steps", None)
        loop._alarm_steps = loop.steps
        if last is None or last != loop.steps:
            return
    raise SimLimit("CPU-time limit: the code under simulation keeps the CPU without ever yielding to the event loop")


def run_sim(main, *, salt=0, wall_offset=1_700_000_000.0, max_steps=5_000_000, max_vtime=None,
            late_seed=None, late_prob=0.0, late_max=0.0, wall_limit=60):
    """Run coroutine function main(loop) to completion on a fresh SimLoop.

    Everything the run can observe is a function of (main, salt, late_seed...).
    Raises SimDeadlock / SimLimit, or whatever main raises.
    """
    global _active, _uuid_rng, _prod_ctr
    install_seams()
    assert _active is None, "nested simulated runs are not supported"
    loop = SimLoop(wall_offset=wall_offset, max_steps=max_steps, max_vtime=max_vtime)
    loop.salt = salt
    if late_seed is not None and late_prob > 0:
        loop.late_rng = random.Random(late_seed)
        loop.late_prob = late_prob
        loop.late_max = late_max
    loop.set_task_factory(_task_factory)
    loop.set_exception_handler(lambda l, ctx: None)
    old_factory = logging.getLogRecordFactory()
    _uuid_rng = random.Random(salt * 1000003 + 0xabc)
    _prod_ctr = 0
    _active = loop
    asyncio.set_event_loop(loop)
    # a step cap cannot bound a loop that never awaits: an alarm on the CPU time this process consumes (not on wall time,
    # which depends on what else the machine is doing) turns such a hang into a reportable SimLimit; it is only a
    # safety net, it never influences a run that ends
    import signal
    import threading
    armed = False
    if wall_limit and threading.current_thread() is threading.main_thread():
        old_handler = signal.signal(signal.SIGVTALRM, _wall_alarm)
        # keeps firing: the code under simulation may swallow the first one in a broad `except Exception`
        signal.setitimer(signal.ITIMER_VIRTUAL, wall_limit, 0.5)
        armed = True
    try:
        return loop.run_until_complete(main(loop))
    finally:
        if armed:
            signal.setitimer(signal.ITIMER_VIRTUAL, 0)
            signal.signal(signal.SIGVTALRM, old_handler)
        _active = None
        asyncio.set_event_loop(None)
        try:
            # drop whatever is left without running it
            loop._ready.clear()
            loop._scheduled.clear()
            loop.close()
        except Exception:
            pass
        # one run must never poison the next (the C14 oracle looks at the
        # factory *before* we get here)
        logging.setLogRecordFactory(old_factory)
