"""Choice tape: one integer decides everything.

In generation mode every choice is drawn from random.Random(seed) and recorded;
in replay mode choices are read back from the recorded list (0 once the list is
exhausted, clamped into range). All generators are written so that 0 is the
simplest choice (no fault, smallest size, no operation), so deleting or zeroing
parts of a tape yields a simpler, still meaningful scenario: that is what the
shrinker does. The replay file is the tape (plus a rendering of the scenario it
produces, for the reader).
"""
import random
from decimal import Decimal


class Tape:
    def __init__(self, seed=None, data=None):
        self.seed = seed
        self.replay = data is not None
        self._data = list(data) if data is not None else None
        self._i = 0
        self._rng = random.Random(seed) if data is None else None
        self.used = []

    def draw(self, n):
        """int in [0, n)"""
        if n <= 1:
            return 0
        if self.replay:
            v = self._data[self._i] if self._i < len(self._data) else 0
            self._i += 1
            if v >= n:
                v = n - 1
            elif v < 0:
                v = 0
        else:
            v = self._rng.randrange(n)
        self.used.append(v)
        return v

    def int(self, lo, hi):
        """int in [lo, hi], lo is simplest"""
        return lo + self.draw(hi - lo + 1)

    def chance(self, p):
        """True with probability ~p; a 0 on the tape means False"""
        k = int(p * 1024)
        return self.draw(1024) >= 1024 - k

    def choice(self, seq):
        return seq[self.draw(len(seq))]

    def weighted(self, pairs):
        """pairs: [(weight, value)], first is simplest"""
        total = sum(w for w, _ in pairs)
        v = self.draw(total)
        for w, val in pairs:
            if v < w:
                return val
            v -= w
        return pairs[-1][1]

    def dec(self, lo_units, hi_units, precision):
        """Decimal on the 10^-precision grid between lo and hi units"""
        return Decimal(self.int(lo_units, hi_units)).scaleb(-precision)

    def subseed(self):
        return self.draw(1 << 30)


def shrink(data, test, max_runs=1500, deadline=None, clock=None):
    """Delta-debug a tape. test(list) -> bool (True = still fails the same way).
    Returns the smallest tape found. test is called at most max_runs times."""
    runs = [0]
    best = list(data)

    def ok(cand):
        if runs[0] >= max_runs:
            return False
        if deadline is not None and clock() > deadline:
            return False
        runs[0] += 1
        return test(cand)

    # strip trailing zeros (they are implicit)
    def norm(c):
        c = list(c)
        while c and c[-1] == 0:
            c.pop()
        return c

    best = norm(best)
    improved = True
    while improved and runs[0] < max_runs:
        improved = False
        # 1. truncate tail
        n = len(best)
        k = n // 2
        while k >= 1:
            cand = norm(best[:len(best) - k])
            if len(cand) < len(best) and ok(cand):
                best = cand
                improved = True
            else:
                k //= 2
        # 2. delete chunks
        k = max(1, len(best) // 2)
        while k >= 1:
            i = 0
            while i < len(best):
                cand = norm(best[:i] + best[i + k:])
                if len(cand) < len(best) and ok(cand):
                    best = cand
                    improved = True
                else:
                    i += k
            k //= 2
        # 3. zero chunks
        k = max(1, len(best) // 2)
        while k >= 1:
            i = 0
            while i < len(best):
                if any(best[i:i + k]):
                    cand = norm(best[:i] + [0] * len(best[i:i + k]) + best[i + k:])
                    if cand != best and ok(cand):
                        best = cand
                        improved = True
                i += k
            k //= 2
        # 4. lower single values
        for i in range(len(best)):
            if i >= len(best):
                break
            v = best[i]
            for nv in (v // 2, v - 1):
                if 0 <= nv < v:
                    cand = norm(best[:i] + [nv] + best[i + 1:])
                    if ok(cand):
                        best = cand
                        improved = True
                        break
    return best, runs[0]
