"""Fan-out, violation handling (reproduce, shrink, replay file), known findings,
evidence. One engine run is a pure function of its tape."""
import asyncio
import collections
import concurrent.futures
import faulthandler
import hashlib
import json
import multiprocessing
import os
import pickle
import re
import select
import signal
import sys
import time
import traceback

from .tape import Tape, shrink

VERIF = os.path.dirname(os.path.dirname(os.path.abspath(__file__)))
REPO = os.path.abspath(os.environ.get("VERIF_REPO", "/repo"))
# sensitivity runs against scratch trees must not overwrite the evidence / replays of the real tree
EVIDENCE_DIR = os.environ.get("VERIF_EVIDENCE_DIR") or os.path.join(VERIF, "evidence")
REPLAY_DIR = os.environ.get("VERIF_REPLAY_DIR") or os.path.join(VERIF, "replays")
_clock = time.perf_counter     # never the patched time.time


class Result:
    """What one simulated run reports."""
    __slots__ = ("violations", "stats", "faults", "probes", "vtime", "steps", "sig", "nontrivial",
                 "digest", "sample", "states", "xdigest", "scenario")

    def __init__(self):
        self.violations = []       # [(property, clause, shape, message)]
        self.stats = collections.Counter()
        self.faults = collections.Counter()
        self.probes = collections.Counter()
        self.vtime = 0.0
        self.steps = 0
        self.sig = ""              # what makes this run "distinct"
        self.nontrivial = False
        self.digest = ""           # digest of the semantic trace
        self.sample = None         # human-readable rendering of the scenario
        self.states = set()        # abstract states / interleaving signatures (ints)
        self.xdigest = None        # digest that must also agree across PYTHONHASHSEED values (default: digest)
        self.scenario = None       # JSON-able explicit scenario, for engines that can execute one directly

    def viol(self, prop, clause, shape, message):
        self.violations.append((prop, clause, shape, str(message)[:1500]))

    def first(self, prop):
        for v in self.violations:
            if v[0] == prop:
                return v
        return None


def digest_of(obj):
    return hashlib.sha256(repr(obj).encode()).hexdigest()[:16]


def run_seed(base_seed, prop, idx):
    h = hashlib.sha256(f"{base_seed}/{prop}/{idx}".encode()).digest()
    return int.from_bytes(h[:8], "big")


# ------------------------------------------------------------------ workers
def _engine_for(prop):
    from . import registry
    return registry.engine(prop)


def _in_child(fn, args, timeout):
    """Runs fn(*args) in a freshly forked child and returns ("ok", value) or ("err", text).

    Engine code never runs in the process that forks, so every child starts from the same pristine interpreter state:
    state that the code under test keeps in module or class attributes cannot travel from one group of runs to the
    next (and what does travel inside a group is recorded as that group's history)."""
    r, w = os.pipe()
    pid = os.fork()
    if pid == 0:
        try:
            os.close(r)
            # no faulthandler watchdog here: its state does not survive a fork (re-arming it in a grandchild would wait
            # for a thread that does not exist there); the parent enforces the time limit
            try:
                out = ("ok", fn(*args))
            except BaseException:       # noqa
                out = ("err", traceback.format_exc()[-3000:])
            data = pickle.dumps(out)
            with os.fdopen(w, "wb") as f:
                f.write(data)
        finally:
            os._exit(0)
    os.close(w)
    chunks = []
    deadline = _clock() + timeout + 15
    timed_out = False
    while True:
        left = deadline - _clock()
        if left <= 0:
            timed_out = True
            break
        ready, _, _ = select.select([r], [], [], min(left, 5.0))
        if not ready:
            continue
        b = os.read(r, 1 << 20)
        if not b:
            break
        chunks.append(b)
    os.close(r)
    if timed_out:
        try:
            os.kill(pid, signal.SIGKILL)
        except OSError:
            pass
    os.waitpid(pid, 0)
    if timed_out:
        return ("err", "child time-out")
    try:
        return pickle.loads(b"".join(chunks))
    except Exception:
        return ("err", "child died without a result")


def _worker_batch(args):
    st, out = _in_child(_worker_batch_impl, (args,), args[4] + 30)
    if st != "ok":
        raise RuntimeError("batch child failed: " + str(out))
    return out


def _worker_batch_impl(args):
    prop, tier, base_seed, indices, watchdog = args
    faulthandler.dump_traceback_later(watchdog, exit=True)
    history = []          # seeds of the runs this process has executed so far
    try:
        eng = _engine_for(prop)
        agg = dict(runs=0, stats=collections.Counter(), faults=collections.Counter(),
                   probes=collections.Counter(), vtime=0.0, steps=0, sigs=set(), states=set(),
                   viols=[], errors=[], samples=[], other=collections.Counter())
        t_batch = _clock()
        for idx in indices:
            if _clock() - t_batch > watchdog * 0.4:
                break          # pathologically slow runs (each one stopped by its CPU-time limit): leave the rest undone
            seed = run_seed(base_seed, prop, idx)
            tape = Tape(seed=seed)
            prefix = list(history)
            history.append(seed)
            try:
                res = eng.run(tape, prop, tier)
            except (Exception, asyncio.CancelledError):
                agg["errors"].append((idx, seed, traceback.format_exc()[-3000:]))
                continue
            agg["runs"] += 1
            agg["stats"].update(res.stats)
            agg["faults"].update(res.faults)
            agg["probes"].update(res.probes)
            agg["vtime"] += res.vtime
            agg["steps"] += res.steps
            agg["states"] |= res.states
            if res.nontrivial:
                agg["sigs"].add(res.sig)
            v = res.first(prop)
            if v is not None:
                agg["viols"].append((idx, seed, v[1], v[2], v[3], list(tape.used), res.digest, prefix))
            for o in res.violations:
                if o[0] != prop:
                    agg["other"][f"{o[0]}:{o[1]}"] += 1
            if res.sample is not None and len(agg["samples"]) < 1 and res.nontrivial:
                agg["samples"].append(dict(seed=seed, scenario=res.sample))
        return agg
    finally:
        faulthandler.cancel_dump_traceback_later()


def replay_tape(prop, tier, data):
    eng = _engine_for(prop)
    tape = Tape(data=data)
    res = eng.run(tape, prop, tier)
    return res, list(tape.used)


class _Fin:
    def __init__(self, d):
        self.digest = d["digest"]
        self.sample = d["sample"]


def _repro(prop, tier, data, history, scenario_json=None):
    """(in a fresh child) the runs of the history first, then the tape - or the explicit minimised scenario"""
    eng = _engine_for(prop)
    for sd in history:
        try:
            eng.run(Tape(seed=sd), prop, tier)
        except (Exception, asyncio.CancelledError):
            pass
    if scenario_json is not None:
        res, used = eng.run_scenario(scenario_json, prop, tier), list(data)
    else:
        res, used = replay_tape(prop, tier, data)
    return dict(fv=res.first(prop), digest=res.digest, used=used, sample=res.sample, scenario=res.scenario)


def _shrink_job(prop, tier, used, clause, history, seconds):
    """(in a fresh child) minimises the tape, then the explicit scenario; with a history, minimises the history"""
    deadline = _clock() + seconds
    nruns = 0
    if history:
        # every probe needs fresh interpreter state: one forked child per probe
        hist = list(history)
        i = len(hist) - 1
        while i >= 0 and _clock() < deadline:
            cand = hist[:i] + hist[i + 1:]
            st, r = _in_child(_repro, (prop, tier, used, cand), 120)
            nruns += 1
            if st == "ok" and r["fv"] is not None and r["fv"][1] == clause:
                hist = cand
            i -= 1
        return used, hist, None, nruns

    def still(c):
        try:
            r, _ = replay_tape(prop, tier, c)
        except Exception:
            return False
        f = r.first(prop)
        return f is not None and f[1] == clause
    small, nruns = shrink(used, still, max_runs=800, deadline=deadline, clock=_clock)
    res, small_used = replay_tape(prop, tier, small)
    fv = res.first(prop)
    if fv is None or fv[1] != clause:
        return used, [], None, nruns
    scenario_json = None
    eng_ = _engine_for(prop)
    if res.scenario is not None and hasattr(eng_, "simplifications"):
        scn_small, n2 = shrink_scenario(prop, tier, res.scenario, clause, max(deadline, _clock() + 20))
        r2 = eng_.run_scenario(scn_small, prop, tier)
        f2 = r2.first(prop)
        if f2 is not None and f2[1] == clause:
            scenario_json = scn_small
            nruns += n2
    return small_used, [], scenario_json, nruns


def shrink_scenario(prop, tier, scn, clause, deadline, max_runs=400):
    """Second, structure-aware stage for engines that execute explicit scenarios: greedily apply the engine's one-step
    simplifications (drop pairs, bars, script entries, single operations, features) while the same clause fails."""
    eng = _engine_for(prop)
    runs = 0
    progress = True
    while progress and runs < max_runs and _clock() < deadline:
        progress = False
        for cand in eng.simplifications(scn):
            if runs >= max_runs or _clock() > deadline:
                break
            runs += 1
            try:
                r = eng.run_scenario(cand, prop, tier)
            except Exception:
                continue
            f = r.first(prop)
            if f is not None and f[1] == clause:
                scn = cand
                progress = True
                break
    return scn, runs


# ------------------------------------------------------------------ findings
def load_findings():
    path = os.path.join(VERIF, "known_findings.json")
    if not os.path.exists(path):
        return []
    with open(path) as f:
        return json.load(f).get("findings", [])


def match_finding(findings, prop, clause, shape):
    for f in findings:
        if f.get("status") != "known":
            continue          # "fixed" entries suppress nothing
        if f.get("property") != prop:
            continue
        if f.get("clause") and f["clause"] != clause:
            continue
        if f.get("shape_regex") and not re.search(f["shape_regex"], shape or ""):
            continue
        return f
    return None


# ------------------------------------------------------------------ main check
def check(prop, tier, base_seed, runs, budget_s, workers, meta, batch=None, out=sys.stdout):
    """Returns exit code. meta: dict(level, rule, components, assumptions, engine)"""
    t0 = _clock()
    workers = max(1, workers)
    if batch is None:
        batch = max(1, min(25, runs // (workers * 8) or 1))
    batches = [list(range(i, min(i + batch, runs))) for i in range(0, runs, batch)]
    ctx = multiprocessing.get_context("fork")
    agg = dict(runs=0, stats=collections.Counter(), faults=collections.Counter(), probes=collections.Counter(),
               vtime=0.0, steps=0, sigs=set(), states=set(), viols=[], errors=[], samples=[],
               other=collections.Counter())
    watchdog = max(300, int(budget_s * 3))
    harness_error = None
    submitted = 0
    try:
        with concurrent.futures.ProcessPoolExecutor(max_workers=workers, mp_context=ctx) as pool:
            pending = set()
            it = iter(batches)

            def submit_more():
                nonlocal submitted
                while len(pending) < workers * 2 and _clock() - t0 < budget_s:
                    b = next(it, None)
                    if b is None:
                        return
                    pending.add(pool.submit(_worker_batch, (prop, tier, base_seed, b, watchdog)))
                    submitted += len(b)
            submit_more()
            while pending:
                done, pending = concurrent.futures.wait(pending, timeout=watchdog + 30,
                                                        return_when=concurrent.futures.FIRST_COMPLETED)
                if not done:
                    harness_error = "worker time-out"
                    break
                for fut in done:
                    a = fut.result()
                    agg["runs"] += a["runs"]
                    for k in ("stats", "faults", "probes", "other"):
                        agg[k].update(a[k])
                    agg["vtime"] += a["vtime"]
                    agg["steps"] += a["steps"]
                    agg["sigs"] |= a["sigs"]
                    agg["states"] |= a["states"]
                    agg["viols"].extend(a["viols"])
                    agg["errors"].extend(a["errors"])
                    if len(agg["samples"]) < 3:
                        agg["samples"].extend(a["samples"])
                # stop early once an unlisted violation is in hand (one is enough to fail the check); known findings do
                # not cut the exploration short
                findings_ = load_findings()
                fresh = [v for v in agg["viols"] if not match_finding(findings_, prop, v[2], v[3])]
                if not fresh and not agg["errors"]:
                    submit_more()
    except concurrent.futures.process.BrokenProcessPool as e:
        harness_error = f"worker died: {e}"
    except Exception:
        harness_error = traceback.format_exc()

    explore_wall = _clock() - t0
    findings = load_findings()
    exit_code = 0
    lines = []
    reported = []
    known_hits = collections.Counter()
    if agg["errors"]:
        idx, seed, tb = agg["errors"][0]
        harness_error = f"engine raised on seed {seed} (run {idx}):\n{tb}"

    # group violations by class, take the earliest run of each
    classes = {}
    for v in sorted(agg["viols"]):
        classes.setdefault((v[2], v[3]), v)
    shrink_deadline = _clock() + max(30.0, budget_s)
    child_limit = 240
    for (clause, shape), v in sorted(classes.items(), key=lambda kv: kv[1][0])[:6]:
        idx, seed, _, _, msg, used, dig, prefix = v
        note = None
        history = []
        # reproduce from the tape, alone, in a fresh process
        st, r1 = _in_child(_repro, (prop, tier, used, []), child_limit)
        if st != "ok":
            harness_error = "replay raised:\n" + str(r1)
            continue
        if not (r1["fv"] is not None and r1["fv"][1] == clause and r1["digest"] == dig):
            st, r1b = _in_child(_repro, (prop, tier, used, []), child_limit)
            if st != "ok" or (r1b["fv"], r1b["digest"]) != (r1["fv"], r1["digest"]):
                harness_error = (f"violation {prop}/{clause} of seed {seed} did not reproduce from its tape and two fresh "
                                 f"processes disagree ({r1['fv'] and r1['fv'][1]} {r1['digest']} vs "
                                 f"{st == 'ok' and r1b['fv'] and r1b['fv'][1]}) - determinism leak in the harness")
                continue
            if r1["fv"] is not None:
                note = (f"first met as {clause} (digest {dig}) in a process that had executed {len(prefix)} other runs "
                        f"before; alone in a fresh process the same tape violates {r1['fv'][1]}: the outcome depends on "
                        f"state that survives from one run to the next inside the process")
                clause = r1["fv"][1]
            else:
                st, rp = _in_child(_repro, (prop, tier, used, prefix), child_limit)
                if st == "ok" and rp["fv"] is not None and rp["fv"][1] == clause:
                    history = list(prefix)
                    note = ("the violation needs the runs listed under history to have executed before in the same "
                            "process: state survives from one run to the next")
                else:
                    harness_error = (f"violation {prop}/{clause} of seed {seed} did not reproduce from its tape "
                                     f"(alone: {r1['fv'] and r1['fv'][1]}, digest {r1['digest']} vs {dig}; after the "
                                     f"{len(prefix)} runs that preceded it in its process: "
                                     f"{st == 'ok' and rp['fv'] and rp['fv'][1]}) - determinism leak in the harness")
                    continue
        # a listed finding is reported as it was met: no need to spend the budget minimising it again
        fshape = r1["fv"][2] if r1["fv"] is not None else shape
        already_known = match_finding(findings, prop, clause, fshape) is not None
        small, hist_small, scenario_json, nruns = used, history, None, 0
        # sensitivity runs against scratch trees (tools/run_seeded.py) only need the verdict, not a minimised replay
        no_shrink = os.environ.get("VERIF_NO_SHRINK") == "1" or (
            bool(os.environ.get("VERIF_EVIDENCE_DIR")) and os.environ.get("VERIF_SHRINK") != "1")
        if not already_known and not no_shrink:
            left = max(30.0, shrink_deadline - _clock())
            st, sj = _in_child(_shrink_job, (prop, tier, used, clause, history, left), left + 60)
            if st == "ok":
                small, hist_small, scenario_json, nruns = sj
        st, fin = _in_child(_repro, (prop, tier, small, hist_small, scenario_json), child_limit)
        if st != "ok" or fin["fv"] is None or fin["fv"][1] != clause:
            scenario_json = None
            st, fin = _in_child(_repro, (prop, tier, small, hist_small), child_limit)
        if st != "ok" or fin["fv"] is None or fin["fv"][1] != clause:       # keep the original
            small, hist_small = used, history
            st, fin = _in_child(_repro, (prop, tier, used, history), child_limit)
        if st != "ok" or fin["fv"] is None:
            harness_error = f"violation {prop}/{clause} of seed {seed} was lost while minimising: {fin if st != 'ok' else ''}"
            continue
        fv = fin["fv"]
        small_used = fin["used"]
        res = _Fin(fin)
        known = match_finding(findings, prop, fv[1], fv[2])
        os.makedirs(REPLAY_DIR, exist_ok=True)
        path = os.path.join(REPLAY_DIR, f"{prop}-{fv[1]}-{seed}.json")
        with open(path, "w") as f:
            json.dump(dict(property=prop, tier=tier, seed=seed, run_index=idx, base_seed=base_seed,
                           clause=fv[1], shape=fv[2], message=fv[3], digest=res.digest,
                           tape=small_used, original_tape_len=len(used), shrink_runs=nruns,
                           scenario_json=scenario_json,
                           scenario=res.sample, history=hist_small, note=note,
                           replay=f"./check {prop} --replay {path}"), f, indent=1, default=str)
        if known:
            known_hits[known.get("id", "?")] += 1
            lines.append(f"KNOWN-FINDING: property={prop} {known.get('what', fv[1])} (replay={path})")
        else:
            exit_code = 1
            lines.append(f"VIOLATION property={prop} replay={path}")
            lines.append(f"  clause={fv[1]} shape={fv[2]} seed={seed}: {fv[3][:400]}")
        reported.append(dict(clause=fv[1], shape=fv[2], seed=seed, replay=path, known=bool(known)))

    post_info = None
    eng = _engine_for(prop)
    if hasattr(eng, "post_check") and not harness_error:
        try:
            pbad, post_info = eng.post_check(prop, tier, base_seed)
            for clause, shape, msg, seed in pbad:
                os.makedirs(REPLAY_DIR, exist_ok=True)
                path = os.path.join(REPLAY_DIR, f"{prop}-{clause}-{seed}.json")
                t_ = Tape(seed=seed)
                eng.run(t_, prop, tier)
                with open(path, "w") as f:
                    json.dump(dict(property=prop, tier=tier, seed=seed, base_seed=base_seed, clause=clause, shape=shape,
                                   message=msg, tape=list(t_.used), note="cross-interpreter clause: re-run the check "
                                   "(post_check) to reproduce; the tape regenerates the scenario"), f, indent=1)
                known = match_finding(findings, prop, clause, shape)
                if known:
                    known_hits[known.get("id", "?")] += 1
                    lines.append(f"KNOWN-FINDING: property={prop} {known.get('what', clause)} (replay={path})")
                else:
                    exit_code = 1
                    lines.append(f"VIOLATION property={prop} replay={path}")
                    lines.append(f"  clause={clause}: {msg[:400]}")
                reported.append(dict(clause=clause, shape=shape, seed=seed, replay=path, known=bool(known)))
        except Exception:
            harness_error = "post_check raised:\n" + traceback.format_exc()

    wall = _clock() - t0
    ev = dict(
        property_id=prop, tier=tier, seed=int(base_seed), level=meta["level"],
        coverage=dict(
            evaluations=agg["runs"],
            distinct_nontrivial=len(agg["sigs"]),
            rule=meta["rule"],
            samples=agg["samples"][:3] or [dict(note="no non-trivial sample captured")],
            runs_requested=runs, runs_submitted=submitted,
            seeds=dict(base_seed=int(base_seed), derivation="run i uses the first 8 bytes of sha256('<base>/<property>/<i>')",
                       first=run_seed(base_seed, prop, 0), last=run_seed(base_seed, prop, max(0, submitted - 1))),
            runs_per_hour=int(agg["runs"] / explore_wall * 3600) if explore_wall > 0 else 0,
            workers=workers,
            virtual_seconds=round(agg["vtime"], 3),
            loop_steps=agg["steps"],
            faults_fired=dict(sorted(agg["faults"].items())),
            probes=dict(sorted(agg["probes"].items())),
            probes_at_zero=[p for p in meta.get("probes_expected", []) if agg["probes"].get(p, 0) == 0],
            stats=dict(sorted(agg["stats"].items())),
            distinct_states=len(agg["states"]),
            distinct_states_measure=meta.get("states_measure", "n/a"),
            components=meta["components"],
            engine=meta["engine"],
            violations_reported=reported,
            known_findings_matched=dict(known_hits),
            other_property_violations_seen=dict(agg["other"]),
            post_check=post_info,
            exhaustive=False,
        ),
        assumptions=meta["assumptions"],
        wall_s=round(wall, 2),
        violations=sum(1 for r in reported if not r["known"]),
    )
    if harness_error:
        ev["coverage"]["harness_error"] = harness_error[-2000:]
    os.makedirs(EVIDENCE_DIR, exist_ok=True)
    with open(os.path.join(EVIDENCE_DIR, f"{prop}.json"), "w") as f:
        json.dump(ev, f, indent=1, default=str)
    for ln in lines:
        print(ln, file=out)
    zero = ev["coverage"]["probes_at_zero"]
    print(f"[{prop} {tier}] runs={agg['runs']} distinct_nontrivial={len(agg['sigs'])} "
          f"vtime={agg['vtime']:.0f}s steps={agg['steps']} wall={wall:.1f}s "
          f"faults={sum(agg['faults'].values())} violations={ev['violations']}"
          + (f" probes_at_zero={zero}" if zero else ""), file=out)
    if harness_error:
        print(f"HARNESS-ERROR property={prop}: {harness_error[-1500:]}", file=out)
        return 2 if exit_code == 0 else exit_code
    if agg["runs"] == 0:
        print(f"HARNESS-ERROR property={prop}: no run completed", file=out)
        return 2
    return exit_code


def replay_file(path, out=sys.stdout):
    with open(path) as f:
        doc = json.load(f)
    prop = doc["property"]
    for sd in doc.get("history") or []:
        # runs that have to precede it in the same process (state that survives from one run to the next)
        try:
            _engine_for(prop).run(Tape(seed=sd), prop, doc.get("tier", "quick"))
        except (Exception, asyncio.CancelledError):
            pass
    if doc.get("scenario_json") is not None:
        # explicit minimised scenario (the tape regenerates the un-minimised one)
        res = _engine_for(prop).run_scenario(doc["scenario_json"], prop, doc.get("tier", "quick"))
    else:
        res, used = replay_tape(prop, doc.get("tier", "quick"), doc["tape"])
    fv = res.first(prop)
    if fv is None:
        print(f"[replay] {prop}: no violation (digest {res.digest})", file=out)
        return 0
    same = (fv[1] == doc.get("clause")) and (res.digest == doc.get("digest"))
    known = match_finding(load_findings(), prop, fv[1], fv[2])
    if known:
        print(f"KNOWN-FINDING: property={prop} {known.get('what', fv[1])} (replay={path})", file=out)
        return 0
    print(f"VIOLATION property={prop} replay={path}", file=out)
    print(f"  clause={fv[1]} shape={fv[2]} reproduced_exactly={same}: {fv[3][:1200]}", file=out)
    return 1


def minimise_file(path, max_runs=6000, seconds=600, out=sys.stdout):
    """Shrinks the tape of an existing replay file further (same property and clause), in place."""
    with open(path) as f:
        doc = json.load(f)
    prop, tier, clause = doc["property"], doc.get("tier", "quick"), doc["clause"]

    def still(c):
        try:
            r, _ = replay_tape(prop, tier, c)
        except Exception:
            return False
        fv = r.first(prop)
        return fv is not None and fv[1] == clause
    if not still(doc["tape"]):
        print(f"[minimise] {path}: does not reproduce {prop}/{clause} on this tree", file=out)
        return 2
    small, n = shrink(doc["tape"], still, max_runs=max_runs, deadline=_clock() + seconds, clock=_clock)
    res, used = replay_tape(prop, tier, small)
    fv = res.first(prop)
    eng_ = _engine_for(prop)
    if res.scenario is not None and hasattr(eng_, "simplifications"):
        scn_small, n2 = shrink_scenario(prop, tier, res.scenario, clause, _clock() + seconds, max_runs=3000)
        r2 = eng_.run_scenario(scn_small, prop, tier)
        f2 = r2.first(prop)
        if f2 is not None and f2[1] == clause:
            res, fv = r2, f2
            doc["scenario_json"] = scn_small
            n += n2
    doc.update(tape=used, message=fv[3], shape=fv[2], digest=res.digest, scenario=res.sample,
               shrink_runs=doc.get("shrink_runs", 0) + n)
    with open(path, "w") as f:
        json.dump(doc, f, indent=1, default=str)
    print(f"[minimise] {path}: tape {len(doc['tape'])} values after {n} runs: {fv[3][:300]}", file=out)
    return 0
