"""./check <Cxx> [--tier quick|thorough] [--replay FILE] [--seed N] [--runs N] [--budget S]

Exit 0: the property held on everything explored (KNOWN-FINDING lines may be printed).
Exit 1: a line `VIOLATION property=<id> replay=<path>` was printed.
Exit 2: harness error (never reported as 0, never as a VIOLATION).
"""
import argparse
import os
import sys


def main(argv=None):
    ap = argparse.ArgumentParser()
    ap.add_argument("prop")
    ap.add_argument("--tier", default=os.environ.get("VERIF_TIER") or "quick", choices=["quick", "thorough"])
    ap.add_argument("--replay")
    ap.add_argument("--minimise")
    ap.add_argument("--seed", type=int, default=None)
    ap.add_argument("--runs", type=int, default=None)
    ap.add_argument("--budget", type=float, default=None)
    ap.add_argument("--workers", type=int, default=None)
    args = ap.parse_args(argv)

    verif = os.path.dirname(os.path.dirname(os.path.abspath(__file__)))
    repo = os.path.abspath(os.environ.get("VERIF_REPO", "/repo"))
    sys.path.insert(0, verif)
    sys.path.insert(0, repo)
    import basana
    if not os.path.abspath(basana.__file__).startswith(repo + os.sep):
        print(f"HARNESS-ERROR: basana imported from {basana.__file__}, not from {repo}")
        return 2

    from dst import registry, runner, selftest
    if args.prop == "selftest-determinism":
        return selftest.determinism(args.tier)
    if args.minimise:
        return runner.minimise_file(args.minimise)
    if args.replay:
        return runner.replay_file(args.replay)
    if args.prop not in registry.TABLE:
        print(f"HARNESS-ERROR: no check for {args.prop}")
        return 2
    seed = args.seed
    if seed is None:
        env = os.environ.get("VERIF_SEED")
        seed = int(env) if env not in (None, "") else (20261001 if args.tier == "quick" else 20261002)
    runs, budget = registry.budget(args.prop, args.tier)
    if args.runs:
        runs = args.runs
    if args.budget:
        budget = args.budget
    workers = args.workers or int(os.environ.get("VERIF_WORKERS") or 0) or min(16, os.cpu_count() or 1)
    return runner.check(args.prop, args.tier, seed, runs, budget, workers, registry.meta(args.prop))


if __name__ == "__main__":
    sys.exit(main())
