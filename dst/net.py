"""In-memory network for the simulated loop.

The real aiohttp client stack (HTTP parser, websocket reader/writer, heartbeat)
talks through SimTransport to a peer protocol object living on the same loop
(aiohttp's own server protocol driven by a handler = the fake exchange).
SimNet decides connect refusal and latency, delivery latency, fragmentation
(TCP-legal: in order, no loss, no duplication inside a connection), resets and
stalls (half-open connection).
"""
import asyncio
import contextvars

import aiohttp

# which simulated client (task tree) opens a connection: engines with several clients in one run set it inside the
# client's own main task, so that connection attempts can be attributed
CLIENT = contextvars.ContextVar("sim_client", default=None)


class SimTransport(asyncio.Transport):
    def __init__(self, loop, proto, conn, side):
        super().__init__()
        self._loop = loop
        self._proto = proto
        self.peer = None
        self._closing = False
        self.conn = conn
        self.side = side                  # "c" or "s"
        self._next_at = 0.0               # in-order delivery
        self._extra = {"peername": ("10.0.0.1", 1234), "sockname": ("10.0.0.2", 80)}
        self.paused = False

    def get_extra_info(self, name, default=None):
        return self._extra.get(name, default)

    def is_closing(self):
        return self._closing

    def write(self, data):
        if self._closing or not data:
            return
        data = bytes(data)
        conn = self.conn
        net = conn.net
        now = self._loop.time()
        conn.log.append((self.side, now, data))
        if conn.stalled:
            net.stats["bytes_blackholed"] += len(data)
            return
        peer = self.peer
        chunks = net.fragment(data)
        for ch in chunks:
            at = max(self._next_at, now + net.latency())
            self._next_at = at
            self._loop.call_at(at, peer._deliver, ch)

    def writelines(self, list_of_data):
        self.write(b"".join(list_of_data))

    def _deliver(self, data):
        if not self._closing and not self.conn.stalled:
            self._proto.data_received(data)

    def close(self):
        if self._closing:
            return
        self._closing = True
        self.conn.closed_by = self.conn.closed_by or self.side
        self._loop.call_soon(self._proto.connection_lost, None)
        if self.peer and not self.peer._closing and not self.conn.stalled:
            at = max(self._next_at, self._loop.time() + self.conn.net.latency())
            self._loop.call_at(at, self.peer._peer_closed)

    def _peer_closed(self):
        if self._closing:
            return
        try:
            keep = self._proto.eof_received()
        except Exception:
            keep = False
        if not keep:
            self.close()

    def abort(self):
        self.close()

    def reset(self):
        """abrupt connection loss seen by this side"""
        if self._closing:
            return
        self._closing = True
        self._loop.call_soon(self._proto.connection_lost, ConnectionResetError("connection reset (simulated)"))

    def can_write_eof(self):
        return False

    def set_write_buffer_limits(self, high=None, low=None):
        pass

    def get_write_buffer_size(self):
        return 0

    def get_write_buffer_limits(self):
        return (0, 0)

    def pause_reading(self):
        pass

    def resume_reading(self):
        pass

    def is_reading(self):
        return True

    def set_protocol(self, p):
        self._proto = p

    def get_protocol(self):
        return self._proto


class Conn:
    def __init__(self, net, cid, host):
        self.net = net
        self.id = cid
        self.host = host
        self.log = []          # (side, loop time, bytes)
        self.stalled = False
        self.closed_by = None
        self.opened_at = net.loop.time()
        self.ct = None
        self.st = None

    def reset(self):
        """both ends lose the connection abruptly"""
        if self.ct:
            self.ct.reset()
        if self.st:
            self.st.reset()

    def stall(self):
        """half-open: nothing gets through any more, nobody is told"""
        self.stalled = True

    @property
    def alive(self):
        return bool(self.ct and not self.ct._closing and not self.stalled)

    def client_bytes(self):
        return b"".join(d for s, t, d in self.log if s == "c")


class SimNet:
    def __init__(self, loop, rng, servers, min_latency=0.001, jitter=0.01, fragment_prob=0.0):
        """servers: host -> protocol factory (e.g. aiohttp.web.Server instance)"""
        self.loop = loop
        self.rng = rng
        self.servers = servers
        self.min_latency = min_latency
        self.jitter = jitter
        self.fragment_prob = fragment_prob
        self.conns = []
        self.attempts = []            # (loop time, host, outcome)
        self.refuse = {}              # host -> number of upcoming connection attempts to refuse
        self.connect_delay = {}       # host -> extra seconds for upcoming attempts (list, popped)
        self.stats = {"bytes_blackholed": 0, "fragments": 0}

    def latency(self):
        return self.min_latency + self.rng.random() * self.jitter

    def fragment(self, data):
        if self.fragment_prob and len(data) > 1 and self.rng.random() < self.fragment_prob:
            n = 1 + self.rng.randrange(min(4, len(data) - 1))
            cuts = sorted(self.rng.sample(range(1, len(data)), n))
            out = []
            prev = 0
            for c in cuts + [len(data)]:
                out.append(data[prev:c])
                prev = c
            self.stats["fragments"] += len(out)
            return out
        return [data]

    async def connect(self, client_proto, host):
        t0 = self.loop.time()
        who = CLIENT.get()
        extra = 0.0
        dl = self.connect_delay.get(host)
        if dl:
            extra = dl.pop(0)
        await asyncio.sleep(self.latency() + extra)
        if self.refuse.get(host, 0) > 0:
            self.refuse[host] -= 1
            self.attempts.append((t0, host, "refused", who))
            raise aiohttp.ClientConnectionError(f"connection to {host} refused (simulated)")
        factory = self.servers.get(host)
        if factory is None:
            self.attempts.append((t0, host, "no-such-host", who))
            raise aiohttp.ClientConnectionError(f"cannot resolve {host} (simulated)")
        sproto = factory()
        conn = Conn(self, len(self.conns) + 1, host)
        conn.client = who
        ct = SimTransport(self.loop, client_proto, conn, "c")
        st = SimTransport(self.loop, sproto, conn, "s")
        ct.peer = st
        st.peer = ct
        conn.ct, conn.st = ct, st
        self.conns.append(conn)
        self.attempts.append((t0, host, "connected", who))
        sproto.connection_made(st)
        client_proto.connection_made(ct)
        return client_proto


class SimConnector(aiohttp.BaseConnector):
    def __init__(self, net, **kw):
        super().__init__(**kw)
        self.net = net

    async def _create_connection(self, req, traces, timeout):
        return await self.net.connect(self._factory(), req.url.host)


def parse_requests(raw):
    """concatenated client bytes of one HTTP connection -> [(method, target, headers, body)] as the peer sees them"""
    out = []
    buf = raw
    while buf:
        head, sep, rest = buf.partition(b"\r\n\r\n")
        if not sep:
            break
        lines = head.split(b"\r\n")
        try:
            m, target, _v = lines[0].split(b" ", 2)
        except ValueError:
            break
        hdr = {}
        for ln in lines[1:]:
            k, _, v = ln.partition(b":")
            hdr[k.strip().lower().decode("latin-1")] = v.strip().decode("latin-1")
        if hdr.get("upgrade", "").lower() == "websocket":
            out.append((m.decode(), target.decode("latin-1"), hdr, b""))
            break            # the rest of the stream is websocket frames
        n = int(hdr.get("content-length", "0"))
        body = rest[:n]
        buf = rest[n:]
        out.append((m.decode(), target.decode("latin-1"), hdr, body))
    return out
