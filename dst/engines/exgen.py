"""Scenario generator for the backtesting-exchange engine (exsim).

Everything is drawn from the tape up front, so executing a scenario is a pure
function of it (needed for the C03 differential: the same scenario is run under
several pool sizes / hash salts). Operands are symbolic (fractions of what is
affordable, factors of the last close, indices modulo what exists) so that a
shrunk tape still yields a meaningful script.
"""
from decimal import Decimal as D

BASES = ["AAA", "BBB", "CCC"]
QUOTE = "USD"

# workload bias per property: weights of op kinds
#            order cancel loan repay invalid edge
BIAS = {
    "default": (10, 3, 2, 2, 1, 2),
    "C01": (10, 4, 3, 3, 1, 1),
    "C02": (12, 2, 3, 4, 0, 2),
    "C03": (12, 3, 0, 0, 0, 0),
    "C04": (14, 1, 0, 0, 0, 1),
    "C05": (10, 5, 1, 1, 1, 1),
    "C06": (8, 5, 2, 1, 0, 6),
    "C07": (6, 4, 4, 4, 6, 4),
    "C08": (14, 1, 0, 0, 0, 1),
    "C09": (14, 2, 0, 0, 0, 0),
    "C10": (5, 1, 10, 2, 1, 0),
    "C11": (7, 2, 7, 6, 1, 0),
}


def gen_cond(tape, bases, for_symbol):
    # interest symbol must be convertible from the borrowed symbol with a direct pair
    if for_symbol == QUOTE:
        isym = tape.choice([QUOTE] + bases)
    else:
        isym = tape.choice([for_symbol, QUOTE])      # both reachable through a direct (or inverse) pair
    return dict(
        interest_symbol=isym,
        interest_percentage=str(D(tape.int(0, 3000)) / 100),
        interest_period=tape.choice([86400, 60, 3600, 86400 * 365, 0]) if tape.chance(0.9) else 0,
        min_interest=str(D(tape.int(0, 500)) / 1000),
        margin_requirement=tape.choice(["0.5", "0", "0.1", "1", "2.5", "0.2"]),
    )


def gen_op(tape, prop, npairs, lend, bias):
    w = list(bias)
    if not lend:
        w[2] = 1 if prop in ("C07", "C10") else 0     # borrow requests without lending must fail (C10)
        w[3] = 0
    w.append(1 if prop in ("C04", "C08", "C01") else 0)      # "reprec": a symbol's precision is made finer mid-run
    w.append(1 if (prop == "C10" and lend) else 0)           # "recond": a symbol's margin requirement is raised mid-run
    kind = tape.weighted(list(zip(w, ["order", "cancel", "loan", "repay", "invalid", "edge", "reprec", "recond"])))
    op = dict(kind=kind, yields=tape.weighted([(5, 0), (2, 1), (1, 2), (1, 3)]),
              sleep=tape.weighted([(8, 0), (1, 1), (1, 2)]))
    if kind in ("order", "edge", "invalid"):
        op.update(otype=tape.choice(["market", "limit", "stop", "stoplimit"]),
                  side=tape.choice(["buy", "sell"]),
                  pair=tape.draw(npairs),
                  same_pair=tape.chance(0.6),
                  amt_kind=tape.weighted([(4, "small"), (3, "frac"), (1, "big"), (1, "all")]),
                  amt=tape.draw(1000),
                  lim=tape.draw(9), stp=tape.draw(9), fine=tape.draw(200),
                  ab=lend and tape.chance(0.4 if prop in ("C10", "C11", "C07", "C02", "C01") else 0.2),
                  ar=lend and tape.chance(0.4 if prop in ("C11", "C01") else 0.2))
        if kind == "edge":
            op["delta"] = tape.choice([0, 1, -1])
        if kind == "invalid":
            op["how"] = tape.choice(["zero_amount", "neg_amount", "offgrid_amount", "zero_price", "offgrid_price",
                                     "neg_price"])
    elif kind == "cancel":
        op.update(which=tape.weighted([(6, "open"), (2, "closed"), (1, "unknown")]), k=tape.draw(50))
    elif kind == "loan":
        op.update(sym=tape.draw(5), amt_kind=tape.weighted([(5, "small"), (3, "mid"), (2, "huge"), (1, "zero"),
                                                            (1, "neg"), (2, "boundary")]),
                  amt=tape.draw(1000))
    elif kind == "repay":
        op.update(which=tape.weighted([(6, "open"), (2, "closed"), (1, "unknown")]), k=tape.draw(50))
    elif kind == "reprec":
        op.update(sym=tape.draw(5), by=1 + tape.draw(2))
    elif kind == "recond":
        op.update(sym=tape.draw(5), add=tape.choice(["0.5", "0.25", "1", "0.1"]))
    return op


def build(tape, prop, tier):
    s = {}
    long_run = (prop == "C05" and tape.chance(0.08 if tier == "quick" else 0.25)) or (tier == "thorough" and tape.chance(0.05))
    npairs = 1 + tape.draw(3)
    bases = BASES[:npairs]
    s["bases"] = bases
    if prop in ("C08", "C09", "C04"):
        qp = tape.draw(9)
        prec = {QUOTE: qp}
        for b in bases:
            prec[b] = tape.draw(9)
    else:
        qp = tape.choice([2, 0, 1, 3, 4, 8, 6])
        prec = {QUOTE: qp}
        for b in bases:
            prec[b] = tape.choice([3, 0, 1, 2, 4, 8, 6])
    # an 18-decimal asset (think wei): balances then need more than 20 significant digits, still well inside the
    # 28-digit context basana computes in
    s["hp"] = prop in ("C01", "C02") and tape.chance(0.1)
    if s["hp"]:
        prec[bases[0]] = 18
    # optional inverse pair QUOTE/ZZZ: ZZZ reaches the margin quote symbol only through 1/price
    p_inv = {"C10": 0.35, "C11": 0.2, "C01": 0.12, "C02": 0.12, "C07": 0.1}.get(prop, 0.05)
    if tape.chance(p_inv):
        s["inv"] = dict(quote="ZZZ")
        prec["ZZZ"] = tape.choice([2, 0, 3, 4])
    else:
        s["inv"] = None
    # optional cross pair between the first two bases (its quote symbol is a base of another pair)
    s["cross"] = npairs >= 2 and tape.chance(0.1)
    ntot = npairs + (1 if s["inv"] else 0) + (1 if s["cross"] else 0)
    all_syms = [QUOTE] + bases + (["ZZZ"] if s["inv"] else [])
    s["prec"] = prec
    # one pair may get its own, coarser, PairInfo (set_pair_info takes precedence over the symbols' precisions)
    s["pair_info"] = {}
    if tape.chance(0.2):
        pi_ = tape.draw(npairs)
        s["pair_info"][str(pi_)] = [tape.draw(prec[bases[pi_]] + 1), tape.draw(prec[QUOTE] + 1)]
    fee_kind = tape.choice(["none", "pct", "pctmin"]) if prop != "C09" else tape.choice(["pct", "pctmin", "none", "pctmin"])
    pct = tape.choice([D("0.25"), D("0.1"), D(1), D("0.333"), D(5), D("0.075"), D("12.5"), D(0), D("99.999")])
    if tape.chance(0.3):
        pct = D(tape.int(0, 99999)) / 1000
    minfee = (D(tape.int(0, 300)) / 100).quantize(D(1).scaleb(-qp)) if fee_kind == "pctmin" else D(0)
    if fee_kind == "pctmin" and tape.chance(0.3):
        minfee = D(tape.int(0, 5000)).scaleb(-min(qp, 6))       # off-grid minimum fee is allowed: fee is rounded up
    if prop in ("C08", "C01", "C02", "C06", "C05") and tape.chance(0.08):
        fee_kind = "received"          # user-defined scheme charging buys in the asset they receive
        minfee = D(0)
    s["fee"] = dict(kind=fee_kind, pct=str(pct), min=str(minfee))
    if prop in ("C08",):
        liq_kind = tape.choice(["vs", "vs", "vs", "inf"])
    elif prop in ("C10", "C11"):
        liq_kind = tape.choice(["inf", "inf", "vs"])
    else:
        liq_kind = tape.choice(["inf", "vs"])
    s["liq"] = dict(kind=liq_kind, limit=str(D(tape.choice([25, 100, 1, 10, 50, 0, 33])) if not tape.chance(0.2)
                                             else D(tape.int(0, 1000)) / 10),
                    impact=str(D(tape.choice([10, 0, 1, 50, 30]))))
    if prop in ("C10", "C11"):
        lend = tape.chance(0.92)
    elif prop in ("C03", "C04", "C08", "C09"):
        lend = tape.chance(0.1)
    else:
        lend = tape.chance(0.5)
    if lend:
        has_default = tape.chance(0.8)
        conds = {}
        for sym in all_syms:
            if tape.chance(0.4) or not has_default and tape.chance(0.6):
                conds[sym] = gen_cond(tape, bases + (["ZZZ"] if s["inv"] else []), sym)
        default = gen_cond(tape, bases, None) if has_default else None
        if default is not None:
            default["interest_symbol"] = tape.choice(["same", QUOTE])
        s["lend"] = dict(default=default, per_symbol=conds, refuse_after=(tape.int(0, 6) if tape.chance(0.25) else None))
        s["reuse_lender"] = tape.chance(0.15)
        s["offgrid_loans"] = prop in ("C01", "C02", "C07", "C11", "C10") and tape.chance(0.2)
    else:
        s["lend"] = None
    init = {}
    zero_equity = prop == "C10" and tape.chance(0.3)
    if not zero_equity:
        if tape.chance(0.85):
            init[QUOTE] = str(D(tape.int(0, 2000000)).scaleb(-2).quantize(D(1).scaleb(-qp)))
        for b in bases:
            if tape.chance(0.45) or (s["hp"] and b == bases[0]):
                init[b] = str(D(tape.int(0, 50000)).scaleb(-3).quantize(D(1).scaleb(-prec[b])))
                if prec[b] == 18:
                    init[b] = str(D(init[b]) + D(tape.int(1, 10 ** 9) * 998244353 % 10 ** 18).scaleb(-18))
        if s["inv"] and tape.chance(0.6):
            init["ZZZ"] = str(D(tape.int(0, 5000000)).scaleb(-2).quantize(D(1).scaleb(-prec["ZZZ"])))
    # balances with more decimals than the symbol precision are legal input (C01/C02 do not exclude them)
    s["offgrid_init"] = prop in ("C01", "C02", "C07", "C10", "C11") and bool(init) and tape.chance(0.12)
    if s["offgrid_init"]:
        for sym in list(init):
            init[sym] = str(D(init[sym]) + D(tape.int(1, 9)).scaleb(-(prec[sym] + 1)))
    s["init"] = init
    s["maxc"] = tape.choice([50, 1, 2, 3, npairs, 1])
    s["sub_first"] = tape.chance(0.5)           # subscribe_to_bar_events before add_bar_source
    s["merged"] = tape.chance(0.2)              # all pairs' bars come from one source
    s["salt"] = tape.draw(1000)
    nb = (5 + tape.draw(36)) if not long_run else (150 + tape.draw(250))
    if tier == "quick" and not long_run:
        nb = min(nb, 30)
    ts_mode = tape.choice(["shared", "distinct", "mixed"])
    s["ts_mode"] = ts_mode
    bars = []
    for pi in range(ntot):
        px = tape.int(500, 50000)        # in quote-grid units? no: in 0.01 steps; snapped later
        rows = []
        k = 0
        n = nb if ts_mode == "shared" else max(3, nb - tape.draw(4))
        for j in range(n):
            if ts_mode == "shared":
                k = j
            elif ts_mode == "distinct":
                k = j * ntot + pi
            else:
                k = (k + 1 + tape.draw(3)) if j else tape.draw(2)
            # OHLC by ranks: choose four levels around px, then assign
            gap = tape.weighted([(6, 0), (2, 1), (1, 2)])          # 0: walk, 1: gap up/down 10-40%, 2: flat bar
            step = tape.int(0, 60) - 30
            if gap == 1:
                step = (tape.int(0, 600) - 300)
            px = max(1, px + px * step // 1000)
            lv = sorted(max(1, px + px * (tape.int(0, 80) - 40) // 1000) for _ in range(4))
            if gap == 2:
                lv = [px, px, px, px]
            lo, hi = lv[0], lv[3]
            o = tape.choice([lv[1], lv[2], lo, hi])
            c = tape.choice([lv[2], lv[1], hi, lo])
            vol = tape.weighted([(4, "mid"), (2, "zero"), (2, "small"), (2, "large"), (2, "offgrid"), (2, "fine")])
            # "fine": nine decimals, so that a share of it has more decimals than any base precision
            v = {"mid": D(tape.int(1, 2000)) / 10, "zero": D(0), "small": D(tape.int(1, 40)) / 10,
                 "large": D(tape.int(1000, 200000)), "offgrid": D(tape.int(1, 99999)) / 1000,
                 "fine": D(tape.int(1, 10 ** 10)) / 10 ** 9}[vol]
            rows.append(dict(k=k, o=o, h=hi, l=lo, c=c, v=str(v)))
            px = c
        bars.append(rows)
    s["bars"] = bars
    bias = BIAS.get(prop, BIAS["default"])
    nosusp = prop == "C03"
    scripts = {}
    for pi in range(ntot):
        for bi in range(len(bars[pi])):
            p_act = 0.5 if not long_run else 0.3
            if tape.chance(p_act):
                n = 1 + tape.draw(3)
                scripts[f"bar:{pi}:{bi}"] = [gen_op(tape, prop, ntot, bool(s["lend"]), bias) for _ in range(n)]
    # order-event handler acts on every n-th order event
    s["oe_every"] = tape.choice([0, 3, 5, 2])
    s["oe_ops"] = [gen_op(tape, prop, ntot, bool(s["lend"]), bias) for _ in range(tape.draw(4))]
    # trading signal source: bar handler of pair 0 emits a signal every n bars, signal handler acts
    s["sig_every"] = tape.choice([0, 0, 4, 2])
    s["sig_ops"] = [gen_op(tape, prop, ntot, bool(s["lend"]), bias) for _ in range(tape.draw(3))]
    # scheduled jobs
    njobs = tape.draw(4)
    s["jobs"] = [dict(at=tape.draw(max(2, nb * (ntot if ts_mode == "distinct" else 1)) + 3),
                      ops=[gen_op(tape, prop, ntot, bool(s["lend"]), bias) for _ in range(1 + tape.draw(2))])
                 for _ in range(njobs)]
    s["scripts"] = scripts
    s["nosusp"] = nosusp
    s["long"] = long_run
    # ---- motifs: rare multi-step shapes that uniform sampling almost never assembles
    s["motif"] = None
    if prop in ("C07", "C11", "C01", "C02", "C06", "C05") and tape.chance(0.22):
        s["motif"] = tape.choice(["twoloan", "arwindow"])
        apply_motif(s, tape)
    elif prop == "C11" and tape.chance(0.04):
        s["motif"] = "arveto"
        apply_motif(s, tape)
    elif prop in ("C08", "C04") and tape.chance(0.05):
        s["motif"] = "liqreject"
        apply_motif(s, tape)
    elif prop in ("C03", "C11") and tape.chance(0.06):
        s["motif"] = "eqloans"
        apply_motif(s, tape)
    elif prop == "C10" and len(s["bases"]) >= 2 and tape.chance(0.08):
        s["motif"] = "pricejump"
        apply_motif(s, tape)
    # a second bar source for the first pair with bars twice as long (1 h and 2 h bars of one pair on one exchange):
    # every other instant two bars of that pair end together
    s["coarse"] = (not s["motif"]) and tape.chance(0.12)
    # one of the other pairs ticks more slowly (daily next to hourly bars): its bars are `span` units long, end on
    # multiples of `span`, and so begin before bars of the faster pairs that were delivered earlier
    s["slow"] = None
    if not s["motif"] and ntot >= 2 and tape.chance(0.15):
        s["slow"] = dict(pair=1 + tape.draw(ntot - 1), span=tape.choice([2, 3, 6]))
    # bar times that are not whole seconds (each pair at its own fraction of a second): elapsed times get a sub-second part
    s["subsec"] = tape.chance(0.2)
    # fault: the user-supplied fee strategy raises once, the n-th time the exchange consults it while processing a bar
    s["flaky_fee"] = (1 + tape.draw(8)) if (not s["motif"] and tape.chance(0.08)) else s.pop("flaky_fee_motif", 0)
    return s


def order_op(**kw):
    op = dict(kind="order", yields=0, sleep=0, otype="market", side="sell", pair=0, same_pair=True, amt_kind="small",
              amt=0, lim=4, stp=4, fine=2, ab=False, ar=False)
    op.update(kw)
    return op


def apply_motif(s, tape):
    qp = s["prec"][QUOTE]
    cond = dict(interest_symbol=QUOTE, interest_percentage="0", interest_period=86400, min_interest="0",
                margin_requirement="0")
    if s["motif"] == "liqreject":
        # a market buy accepted on the last close, killed for lack of funds by a gap-up bar whose liquidity it would have
        # used up, followed in the same bar by a small order of the same pair that fits the untouched liquidity
        b0 = s["bases"][0]
        s["prec"][b0] = 2
        s["prec"][QUOTE] = 2
        s["pair_info"] = {}
        s["fee"] = dict(kind="none", pct="0", min="0")
        s["liq"] = dict(kind="vs", limit="100", impact="0")
        s["lend"] = None
        s["hp"] = False
        s["offgrid_init"] = False
        s["init"] = {QUOTE: "1000.00", b0: "5.00"}
        k = 1 + tape.draw(3)
        rows = [dict(k=j, o=10000, h=10000, l=10000, c=10000, v="50") for j in range(k + 4)]
        up = 11000 + 100 * tape.draw(20)
        rows[k + 1] = dict(k=k + 1, o=up, h=up, l=up, c=up, v="10")
        s["bars"][0] = rows
        s["ts_mode"] = "shared"
        s["jobs"] = []
        s["oe_every"] = 0
        s["sig_every"] = 0
        s["scripts"] = {kk: v for kk, v in s["scripts"].items() if not kk.startswith("bar:0:")}
        second = order_op(otype=tape.choice(["market", "stop"]), side="sell", amt_kind="abs", abs=str(D(1 + tape.draw(4))), stp=8)
        s["scripts"][f"bar:0:{k}"] = [order_op(otype="market", side="buy", amt_kind="abs", abs="10.00"), second]
        return
    if s["motif"] == "eqloans":
        # two loans of exactly the same size taken at different times (so they carry different interest), then an
        # auto-repay sell whose proceeds pay for one of them only: which one must not depend on loan ids
        b0 = s["bases"][0]
        s["prec"][b0] = 2
        s["prec"][QUOTE] = 2
        s["pair_info"] = {}
        s["hp"] = False
        s["fee"] = dict(kind="none", pct="0", min="0")
        s["liq"] = dict(kind="inf", limit="100", impact="0")
        s["lend"] = dict(default=dict(cond, interest_percentage="1", interest_period=60), per_symbol={}, refuse_after=None)
        s["reuse_lender"] = False
        s["offgrid_loans"] = False
        s["offgrid_init"] = False
        s["inv"] = None
        s["cross"] = False
        s["prec"].pop("ZZZ", None)
        s["bars"] = s["bars"][:len(s["bases"])]
        s["init"] = {b0: "0.10"}
        s["ts_mode"] = "shared"
        s["bars"][0] = [dict(k=k, o=10000, h=10000, l=10000, c=10000, v="1000") for k in range(9)]
        for pi in range(1, len(s["bars"])):
            rows = (s["bars"][pi] * 9)[:9]
            s["bars"][pi] = [dict(r, k=k) for k, r in enumerate(rows)]
        s["jobs"] = []
        s["oe_every"] = 0
        s["sig_every"] = 0
        loan = dict(kind="loan", yields=0, sleep=0, sym=0, amt_kind="abs", amt=0, abs="100.00", symname=QUOTE)
        # (or the older loan is slightly smaller but, with its interest, the bigger debt: "largest" means principal)
        first = dict(loan, abs=tape.choice(["100.00", "99.00", "100.00", "99.50"]))
        s["scripts"] = {"bar:0:0": [first], "bar:0:2": [dict(loan)],
                        "bar:0:3": [order_op(otype="market", side="buy", amt_kind="abs", abs="1.90")],
                        "bar:0:5": [order_op(otype="market", side="sell", amt_kind="abs",
                                             abs=str(D("1.00") + D(tape.draw(9)) / 100), ar=True)]}
        return
    if s["motif"] == "pricejump":
        # the collateral's price jumps in one bar, and in the very same instant - from the handler of another pair's bar -
        # the account asks for about as much as its equity allows at the new price (optionally the bar that carries the
        # jump is the one during which the user's fee strategy raises)
        b0 = s["bases"][0]
        s["prec"][b0] = 2
        s["prec"][QUOTE] = 2
        s["pair_info"] = {}
        s["hp"] = False
        if s["fee"]["kind"] == "received":
            s["fee"] = dict(kind="none", pct="0", min="0")
        s["lend"] = dict(default=dict(cond, margin_requirement=tape.choice(["0.5", "0.25", "1"])), per_symbol={},
                         refuse_after=None)
        s["reuse_lender"] = False
        s["offgrid_loans"] = False
        s["offgrid_init"] = False
        s["inv"] = None
        s["cross"] = False
        s["prec"].pop("ZZZ", None)
        s["bars"] = s["bars"][:len(s["bases"])]
        s["init"] = {b0: "10.00"}
        s["ts_mode"] = "shared"
        j = 2 + tape.draw(3)
        n = j + 3
        f = tape.choice([50, 70, 130, 160])
        s["bars"][0] = [dict(k=k, o=10000, h=10000, l=10000, c=10000, v="1000") for k in range(j)] + \
                       [dict(k=k, o=100 * f, h=100 * f, l=100 * f, c=100 * f, v="1000") for k in range(j, n)]
        for pi in range(1, len(s["bars"])):
            rows = (s["bars"][pi] * n)[:n]
            s["bars"][pi] = [dict(r, k=k) for k, r in enumerate(rows)]
        s["jobs"] = []
        s["oe_every"] = 0
        s["sig_every"] = 0
        s["scripts"] = {}
        s["scripts"][f"bar:1:{j}"] = [dict(kind="loan", yields=0, sleep=0, sym=0, amt_kind="edge", amt=tape.draw(1000),
                                           symname=QUOTE)]
        if tape.chance(0.5):
            s["scripts"][f"bar:0:{j - 1}"] = [order_op(otype="market", side="sell", amt_kind="abs", abs="1.00")]
            s["flaky_fee_motif"] = 1
        return
    if s["motif"] == "arveto":
        # two loans in the base symbol, the older one with a lot of accrued interest, a third loan elsewhere, and an
        # auto-repay buy that is partially filled and then cancelled while the account's equity is just above what the
        # margin rule asks for: both repayments are affordable
        b0 = s["bases"][0]
        s["prec"][b0] = 2
        s["prec"][QUOTE] = 2
        s["fee"] = dict(kind="none", pct="0", min="0")
        s["liq"] = dict(kind="vs", limit="25", impact="0")
        c_b = dict(cond, interest_symbol="same", interest_percentage="9.52", interest_period=60, margin_requirement="0.5")
        c_q = dict(cond, margin_requirement="0.5")
        s["lend"] = dict(default=c_b, per_symbol={QUOTE: c_q}, refuse_after=None)
        s["reuse_lender"] = False
        s["offgrid_loans"] = False
        s["offgrid_init"] = False
        s["inv"] = None
        s["cross"] = False
        s["prec"].pop("ZZZ", None)
        s["bars"] = s["bars"][:len(s["bases"])]
        s["init"] = {b0: str(D(190) + D("37.5") + D(tape.int(0, 100) - 40)), QUOTE: "100.00"}
        s["ts_mode"] = "shared"
        s["bars"][0] = [dict(k=j, o=10000, h=10000, l=10000, c=10000, v="2.0") for j in range(76)]
        s["jobs"] = []
        s["oe_every"] = 0
        s["sig_every"] = 0
        s["scripts"] = {k: v for k, v in s["scripts"].items() if not k.startswith("bar:0:")}
        s["scripts"]["bar:0:0"] = [dict(kind="loan", yields=0, sleep=0, sym=1, amt_kind="abs", amt=0, abs="17.50", symname=b0),
                                   dict(kind="loan", yields=0, sleep=0, sym=0, amt_kind="abs", amt=0, abs="18.70", symname=QUOTE)]
        s["scripts"]["bar:0:69"] = [dict(kind="loan", yields=0, sleep=0, sym=1, amt_kind="abs", amt=0, abs="20.00", symname=b0)]
        s["scripts"]["bar:0:70"] = [order_op(otype="limit", side="buy", amt_kind="abs", abs="2.00", abs_lim="101.00", ar=True)]
        s["scripts"]["bar:0:72"] = [dict(kind="cancel", yields=0, sleep=0, which="open", k=0)]
        return
    if s["motif"] == "twoloan":
        # an auto-borrow sell whose minimum fee exceeds its proceeds is short in base AND quote: two loans; the lender
        # refuses the second one (an Error that is not NotEnoughBalance) after the first was granted
        s["fee"] = dict(kind="pctmin", pct="0.5", min=str(D(20 + tape.draw(50))))
        s["lend"] = dict(default=dict(cond), per_symbol={}, refuse_after=1)
        s["init"] = {QUOTE: str(D(tape.int(0, 3)).quantize(D(1).scaleb(-qp)))}
        s["offgrid_init"] = False
        first = order_op(otype=tape.choice(["limit", "market", "stoplimit"]), side="sell", amt_kind="small",
                         amt=tape.draw(20), ab=True, ar=tape.chance(0.5), lim=tape.draw(9))
        s["scripts"]["bar:0:0"] = [first] + s["scripts"].get("bar:0:0", [])
    else:
        # a loan in the quote symbol whose minimum interest is large, then an auto-repay sell whose proceeds fall short
        # of principal + interest: the repayment attempted when the order closes (fill or cancel) must fail cleanly
        s["fee"] = dict(kind="none", pct="0", min="0")
        c = dict(cond, min_interest=str(100 + tape.draw(400)))
        s["lend"] = dict(default=c, per_symbol={}, refuse_after=None)
        s["liq"] = dict(kind=tape.choice(["vs", "inf"]), limit="25", impact="0")
        s["init"] = {s["bases"][0]: str(D(10 + tape.draw(50)).quantize(D(1).scaleb(-s["prec"][s["bases"][0]])))}
        s["offgrid_init"] = False
        loan = dict(kind="loan", yields=0, sleep=0, sym=0, amt_kind="mid", amt=tape.draw(1000))
        sell = order_op(otype=tape.choice(["limit", "market"]), side="sell", amt_kind="small", amt=tape.draw(300), ar=True,
                        lim=tape.draw(4))
        cancel = dict(kind="cancel", yields=0, sleep=0, which="open", k=0)
        s["scripts"]["bar:0:0"] = [loan] + s["scripts"].get("bar:0:0", [])
        s["scripts"]["bar:0:1"] = [sell] + s["scripts"].get("bar:0:1", [])
        k = 2 + tape.draw(3)
        s["scripts"][f"bar:0:{k}"] = [cancel] + s["scripts"].get(f"bar:0:{k}", [])
