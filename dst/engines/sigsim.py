"""C16 - signed requests verify against the bytes actually sent.

Real code: Binance BaseClient / SpotAccount / CrossMarginAccount / IsolatedMarginAccount / APIClient, Bitstamp
APIClient + helpers, TokenBucketLimiter, and the aiohttp / yarl encoders and HTTP writer.
Simulated: the two exchanges (aiohttp server protocol on an in-memory transport) which verify, as the real ones do,
from the raw bytes seen on the wire; the wall clock (with steps), connect and delivery latency, fragmentation,
slow / failing responses, concurrent callers.
"""
import asyncio
import collections
import contextvars
import hashlib
import hmac
import random
from decimal import Decimal as D

from ..loop import run_sim, SimDeadlock, SimLimit
from ..net import SimNet, SimConnector, parse_requests
from ..runner import Result, digest_of

PROP = "C16"
KEY = "k3y-Abc_123"
SEC = "s3cr3t/+=x"
KEYS = [KEY, "0ther-K3y_987"]
SECS = [SEC, "an0ther/s3cr3t=+"]
CALL = contextvars.ContextVar("sigsim_call", default=None)

META = dict(
    engine="sigsim", level="exploration",
    rule=("3-12 seeded calls per run over every signed endpoint of both clients (spot, cross and isolated margin, OCO, "
          "user data streams, balances, order status, cancel, websocket token), symbols, decimals of any exponent, client "
          "order ids over the exchanges' allowed alphabets (Binance [.A-Z:/a-z0-9_-]{1,36}; Bitstamp any text), extra "
          "keyword arguments; issued by concurrent tasks with seeded start delays, an optional token bucket, connect "
          "latency, fragmentation, wall-clock steps between requests, slow / error / dropped responses. Non-trivial: a "
          "request with a parameter character outside [A-Za-z0-9_.-] or one that overlapped another in time. Distinct "
          "by (endpoint, character classes of its arguments, fault mix)."),
    components=dict(real=["basana.external.binance.client (base, spot, margin, APIClient)", "basana.external.binance.helpers.get_signature",
                          "basana.external.bitstamp.client.APIClient", "basana.external.bitstamp.helpers", "basana.core.token_bucket",
                          "aiohttp ClientSession / request writer / FormData", "yarl URL query encoder"],
                    simulated=["Binance and Bitstamp peers (aiohttp.web.Server on SimTransport) verifying HMACs from raw bytes",
                               "SimNet (latency, fragmentation, connect latency)", "wall clock incl. steps", "caller tasks"]),
    assumptions=["the peers verify exactly as documented: Binance HMAC-SHA256(secret, raw query string without &signature=... + raw body); "
                 "Bitstamp v2 string from received method, Host, path, query, Content-Type, nonce, timestamp, version, body",
                 "the discriminating part (two encoders agreeing for every character) is input generation; the simulator "
                 "contributes the wire-level peer, the clock and the concurrency"],
    probes_expected=["special_char_param", "overlapping_requests", "clock_step", "token_bucket_wait", "response_error",
                     "connection_reused", "fragmented"],
    states_measure="distinct (endpoint, method, special-character classes) triples",
)

BIN_ALPHA = "abcdefghijklmnopqrstuvwxyzABCDEFGHIJKLMNOPQRSTUVWXYZ0123456789-_.:/"
BTS_EXTRA = " &=+%?#@!$'()*,;[]{}\"<>\\|^~`é€\t"
DECIMALS = ["1", "0.001", "123.456", "0.00000085", "1E+3", "1000000", "7.10", "0.1", "12345678.12345678", "1E-7"]
SYMBOLS = ["BTCUSDT", "ETHBTC", "BNBUSDT"]
BTS_PAIRS = ["btcusd", "etheur", "xrpusd"]


def gen_coid(tape, exchange):
    n = 1 + tape.draw(36)
    special = tape.chance(0.6)
    out = []
    for _ in range(n):
        if exchange == "binance":
            alpha = BIN_ALPHA if special else BIN_ALPHA[:62]
        else:
            alpha = (BIN_ALPHA + BTS_EXTRA) if special else BIN_ALPHA[:62]
        out.append(alpha[tape.draw(len(alpha))])
    return "".join(out)


BIN_CALLS = ["spot.account", "spot.create_order", "spot.query_order", "spot.open_orders", "spot.cancel_order",
             "spot.trades", "spot.create_oco", "spot.cancel_oco", "spot.query_oco", "spot.listen_key", "spot.keep_alive",
             "cross.create_order", "cross.query_order", "cross.open_orders", "cross.cancel_order", "cross.trades",
             "cross.create_oco", "cross.query_oco", "cross.cancel_oco", "cross.transfer_in", "cross.transfer_out",
             "cross.account", "cross.listen_key", "cross.keep_alive",
             "iso.create_order", "iso.query_order", "iso.cancel_order", "iso.transfer_in", "iso.transfer_out",
             "iso.account", "iso.listen_key", "iso.keep_alive"]
BTS_CALLS = ["bts.ws_token", "bts.balances", "bts.balance", "bts.open_orders", "bts.order_status", "bts.order_status_id",
             "bts.cancel", "bts.market", "bts.limit", "bts.instant"]


def run(tape, prop, tier):
    res = Result()
    ncalls = 3 + tape.draw(10)
    calls = []
    for i in range(ncalls):
        ex = tape.choice(["binance", "bitstamp", "binance"])
        name = tape.choice(BIN_CALLS) if ex == "binance" else tape.choice(BTS_CALLS)
        calls.append(dict(name=name, ex=ex, coid=gen_coid(tape, ex), coid2=gen_coid(tape, ex),
                          sym=tape.draw(3), d1=tape.draw(len(DECIMALS)), d2=tape.draw(len(DECIMALS)),
                          by_id=tape.chance(0.4), extra=tape.chance(0.3), start=tape.choice([0.0, 0.0, 0.003, 0.05, 1.0]),
                          resp=tape.weighted([(7, "ok"), (1, "slow"), (1, "http500"), (1, "error_json")]),
                          step=tape.choice([0.0, 0.0, 0.0, -2.0, 3600.0, -0.0005]) if tape.chance(0.3) else 0.0))
    reseed = tape.chance(0.3)
    use_tb = tape.chance(0.4)
    tb_cfg = (tape.choice([1, 2, 10]), tape.choice([1, 2]))
    conn_lat = tape.choice([0.0, 0.0, 0.2, 1.5])
    frag = tape.choice([0.0, 0.0, 0.5])
    net_seed = tape.subseed()
    salt = tape.draw(1000)
    # a second account (other credentials) used from the same process: every third call goes through its clients
    two_accounts = tape.chance(0.35)

    def acct(i):
        return 1 if (two_accounts and i % 3 == 2) else 0
    res.sample = dict(two_accounts=two_accounts, calls=[{k: c[k] for k in ("name", "coid", "start", "resp", "step")} for c in calls[:8]],
                      token_bucket=tb_cfg if use_tb else None, connect_latency=conn_lat, fragmentation=frag)
    skew_tl = [(0.0, 0.0)]
    records = {}
    out = {}

    async def main(loop):
        import aiohttp
        from aiohttp import web
        from basana.core import token_bucket
        from basana.external.binance import client as bcli
        from basana.external.bitstamp import client as scli
        import dst.net as netmod

        # tag every client write with the call that caused it
        orig_write = netmod.SimTransport.write

        def tagged_write(self, data):
            if self.side == "c":
                cid = CALL.get()
                self.conn.tags = getattr(self.conn, "tags", [])
                self.conn.tags.append((cid, loop.time(), bytes(data)))
            return orig_write(self, data)
        netmod.SimTransport.write = tagged_write
        try:
            resp_mode = {}

            async def handler(request):
                body = await request.read()
                mode = "ok"
                marker = request.headers.get("X-Sim-Call") or ""
                for cid, m in resp_mode.items():
                    pass
                # response behaviour is looked up by arrival order per path (does not influence what was sent)
                mode = handler.modes.pop(0) if handler.modes else "ok"
                if mode == "slow":
                    await asyncio.sleep(2.0)
                if mode == "http500":
                    return web.Response(status=500, text="boom")
                if mode == "error_json":
                    return web.json_response({"code": -1022, "msg": "Signature for this request is not valid.",
                                              "status": "error", "reason": "x"}, status=400)
                return web.json_response({"ok": True, "listenKey": "lk", "token": "t", "user_id": 1})
            handler.modes = [c["resp"] for c in calls]
            server = web.Server(handler)
            net = SimNet(loop, random.Random(net_seed), {"binance.sim": server, "bitstamp.sim": server},
                         fragment_prob=frag)
            if conn_lat:
                net.connect_delay = {"binance.sim": [conn_lat] * 3, "bitstamp.sim": [conn_lat] * 3}
            sess = aiohttp.ClientSession(connector=SimConnector(net))
            tb = token_bucket.TokenBucketLimiter(tb_cfg[0], tb_cfg[1], 1) if use_tb else None
            tb_waits = []
            if tb is not None:
                real_consume = tb.consume

                def spy():
                    w = real_consume()
                    tb_waits.append((CALL.get(), loop.time(), w))
                    return w
                tb.consume = spy
            b = bcli.APIClient(KEY, SEC, session=sess, tb=tb,
                               config_overrides={"api": {"http": {"base_url": "http://binance.sim/"}}})
            s = scli.APIClient(KEY, SEC, session=sess, tb=tb,
                               config_overrides={"api": {"http": {"base_url": "http://bitstamp.sim/"}}})
            b_1 = bcli.APIClient(KEYS[1], SECS[1], session=sess, tb=tb,
                                 config_overrides={"api": {"http": {"base_url": "http://binance.sim/"}}})
            s_1 = scli.APIClient(KEYS[1], SECS[1], session=sess, tb=tb,
                                 config_overrides={"api": {"http": {"base_url": "http://bitstamp.sim/"}}})
            clients = [(b, s), (b_1, s_1)]

            def make(c, who=0):
                b, s = clients[who]
                n = c["name"]
                sym = SYMBOLS[c["sym"]]
                d1, d2 = D(DECIMALS[c["d1"]]), D(DECIMALS[c["d2"]])
                coid, coid2 = c["coid"], c["coid2"]
                kw = {"newOrderRespType": "FULL", "icebergQty": d2} if c["extra"] else {}
                idarg = dict(order_id=12345) if c["by_id"] else dict(orig_client_order_id=coid)
                acc = {"spot": b.spot_account, "cross": b.cross_margin_account, "iso": b.isolated_margin_account}
                if c["ex"] == "binance":
                    a, _, op = n.partition(".")
                    A = acc[a]
                    if op == "account":
                        return A.get_account_information()
                    if op == "create_order":
                        return A.create_order(sym, "BUY", "LIMIT", time_in_force="GTC", quantity=d1, price=d2,
                                              new_client_order_id=coid, **kw)
                    if op == "query_order":
                        return A.query_order(sym, **idarg)
                    if op == "open_orders":
                        return A.get_open_orders(sym if c["by_id"] else None)
                    if op == "cancel_order":
                        return A.cancel_order(sym, **idarg)
                    if op == "trades":
                        return A.get_trades(sym, order_id=77 if c["by_id"] else None)
                    if op == "create_oco":
                        return A.create_oco(sym, "SELL", d1, d2, d2, stop_limit_price=d1, stop_limit_time_in_force="GTC",
                                            list_client_order_id=coid, limit_client_order_id=coid2,
                                            stop_client_order_id=coid2[::-1] or "x")
                    if op == "cancel_oco":
                        return A.cancel_oco_order(sym, **(dict(order_list_id=5) if c["by_id"] else dict(client_order_list_id=coid)))
                    if op == "query_oco":
                        return A.query_oco_order(**(dict(order_list_id=5) if c["by_id"] else dict(client_order_list_id=coid)))
                    if op == "listen_key":
                        return A.create_listen_key(sym) if a == "iso" else A.create_listen_key()
                    if op == "keep_alive":
                        return A.keep_alive_listen_key(sym, coid) if a == "iso" else A.keep_alive_listen_key(coid)
                    if op == "transfer_in":
                        return A.transfer_from_spot_account("BTC", sym, d1) if a == "iso" else A.transfer_from_spot_account("BTC", d1)
                    if op == "transfer_out":
                        return A.transfer_to_spot_account("BTC", sym, d1) if a == "iso" else A.transfer_to_spot_account("BTC", d1)
                    raise AssertionError(n)
                pair = BTS_PAIRS[c["sym"]]
                kwb = {"ioc_order": True} if c["extra"] else {}
                if n == "bts.ws_token":
                    return s.get_websocket_auth_token()
                if n == "bts.balances":
                    return s.get_account_balances()
                if n == "bts.balance":
                    return s.get_account_balance("btc")
                if n == "bts.open_orders":
                    return s.get_open_orders(pair if c["by_id"] else None)
                if n == "bts.order_status":
                    return s.get_order_status(client_order_id=coid, omit_transactions=c["extra"] or None)
                if n == "bts.order_status_id":
                    return s.get_order_status(id=1234567)
                if n == "bts.cancel":
                    return s.cancel_order(1234567 if c["by_id"] else "1234567")
                if n == "bts.market":
                    return s.create_market_order("buy", pair, d1, client_order_id=coid, **kwb)
                if n == "bts.limit":
                    return s.create_limit_order("sell", pair, d1, d2, client_order_id=coid, **kwb)
                if n == "bts.instant":
                    return s.create_instant_order("sell", pair, d1, amount_in_counter=c["extra"], client_order_id=coid)
                raise AssertionError(n)

            async def one(i, c):
                CALL.set(i)
                await asyncio.sleep(c["start"])
                if reseed:
                    # e.g. a strategy that seeds the global PRNG before a reproducible Monte-Carlo sizing step
                    random.seed(12345)
                    res.faults["global_random_reseeded"] += 1
                if c["step"]:
                    loop.skew += c["step"]
                    skew_tl.append((loop.time(), loop.skew))
                    res.faults["wall_clock_step"] += 1
                    res.probes["clock_step"] += 1
                rec = records[i] = dict(t_start=loop.time(), name=c["name"])
                try:
                    await make(c, acct(i))
                    rec["outcome"] = "ok"
                except Exception as e_:
                    rec["outcome"] = type(e_).__name__
                rec["t_end"] = loop.time()
            await asyncio.gather(*[asyncio.ensure_future(one(i, c)) for i, c in enumerate(calls)])
            await sess.close()
            await server.shutdown(1.0)
            out["net"] = net
            out["tb_waits"] = tb_waits
        finally:
            netmod.SimTransport.write = orig_write
        return loop

    try:
        loop = run_sim(main, salt=salt, max_steps=400_000)
        res.vtime = loop.time()
        res.steps = loop.steps
    except SimDeadlock:
        out["o"] = "deadlock"
    except SimLimit as e_:
        out["o"] = f"limit {e_}"
    if "net" not in out:
        raise RuntimeError(f"sigsim run did not complete: {out.get('o')}")
    net = out["net"]
    wall_off = 1_700_000_000.0

    def V(clause, msg, shape=None):
        res.viol(PROP, clause, shape or clause, msg)

    def wall_ranges(t0, t1):
        """wall-clock values the client could have read between loop times t0 and t1 (a step that happens at the very
        instant of a read may or may not have been applied yet: both values count)"""
        out_ = []
        tl = skew_tl
        for k, (tk, sk) in enumerate(tl):
            t_next = tl[k + 1][0] if k + 1 < len(tl) else float("inf")
            lo = max(t0, tk)
            hi = min(t1, t_next)
            if lo <= hi:
                out_.append((wall_off + lo + sk, wall_off + hi + sk))
        return out_

    nonces = set()
    per_call = collections.defaultdict(lambda: collections.defaultdict(bytes))
    first_byte = {}
    for conn in net.conns:
        if len(getattr(conn, "tags", [])) and len({t[0] for t in conn.tags}) > 1:
            res.probes["connection_reused"] += 1
        for cid, t, data in getattr(conn, "tags", []):
            per_call[cid][conn.id] += data
            first_byte.setdefault(cid, t)
    if net.stats["fragments"]:
        res.probes["fragmented"] += 1
        res.faults["fragmented_writes"] += net.stats["fragments"]
    trace = []
    spans = []
    for cid, conns in sorted(per_call.items(), key=lambda kv: (kv[0] is None, kv[0])):
        if cid is None:
            continue
        c = calls[cid]
        rec = records.get(cid, {})
        key_, sec_ = KEYS[acct(cid)], SECS[acct(cid)]        # the credentials of the account that made this call
        if acct(cid):
            res.probes["second_account_request"] += 1
        for conn_id, raw in sorted(conns.items()):
            for (m, target, hdr, body) in parse_requests(raw):
                res.stats["requests"] += 1
                path, _, qs = target.partition("?")
                trace.append((cid, m, path, len(qs), len(body)))
                tb_wait = sum(w for (k, t, w) in out["tb_waits"] if k == cid)
                if tb_wait:
                    res.probes["token_bucket_wait"] += 1
                t_lo = rec.get("t_start", 0.0) + tb_wait
                t_hi = first_byte.get(cid, rec.get("t_end", 0.0))
                spans.append((rec.get("t_start", 0.0), rec.get("t_end", 0.0)))
                special = any(ch not in "abcdefghijklmnopqrstuvwxyzABCDEFGHIJKLMNOPQRSTUVWXYZ0123456789_.-" for ch in c["coid"])
                if special:
                    res.probes["special_char_param"] += 1
                res.states.add(hash((c["name"], m, special)) & 0xffffffff)
                ts_ms = None
                if hdr.get("host") == "binance.sim":
                    signed = "signature=" in qs
                    needs_sig = not c["name"].endswith(("listen_key", "keep_alive"))
                    if hdr.get("x-mbx-apikey") != key_:
                        V("api-key-missing", f"{m} {path}: X-MBX-APIKEY header is {hdr.get('x-mbx-apikey')!r}")
                    if needs_sig and not signed:
                        V("unsigned-request", f"{m} {path} sent without signature")
                    if signed:
                        if "&signature=" in qs:
                            pre, _, sig = qs.rpartition("&signature=")
                        else:
                            pre, sig = "", qs[len("signature="):]
                        exp = hmac.new(sec_.encode(), pre.encode("latin-1") + body, hashlib.sha256).hexdigest()
                        if sig != exp:
                            bad = sorted({ch for ch in c["coid"] + c["coid2"] if ch in ":/@!$'()*,?"})
                            V("signature-mismatch", f"Binance {m} {target[:200]} body={body[:120]!r}: signature does not verify "
                                                    f"against the transmitted query string + body",
                              shape=f"binance {m} {'query' if not body else 'body'} chars={''.join(bad)}")
                        for kv in pre.split("&"):
                            if kv.startswith("timestamp="):
                                ts_ms = int(kv[len("timestamp="):])
                        if ts_ms is None:
                            V("timestamp-missing", f"Binance {m} {path}: no timestamp parameter")
                elif hdr.get("host") == "bitstamp.sim":
                    if "x-auth" not in hdr:
                        V("unsigned-request", f"Bitstamp {m} {path} sent without X-Auth")
                        continue
                    if hdr["x-auth"] != f"BITSTAMP {key_}":
                        V("api-key-missing", f"Bitstamp X-Auth is {hdr['x-auth']!r}")
                    msg = (hdr["x-auth"] + m + hdr["host"] + path + qs + hdr.get("content-type", "") + hdr.get("x-auth-nonce", "") +
                           hdr.get("x-auth-timestamp", "") + hdr.get("x-auth-version", ""))
                    exp = hmac.new(sec_.encode(), msg.encode("latin-1") + body, hashlib.sha256).hexdigest()
                    if hdr.get("x-auth-signature") != exp:
                        V("signature-mismatch", f"Bitstamp {m} {path} content-type={hdr.get('content-type')!r} body={body[:120]!r}: "
                                                f"signature does not verify against the v2 message built from what was received",
                          shape=f"bitstamp {m} body={'yes' if body else 'no'}")
                    if hdr.get("x-auth-nonce") in nonces:
                        V("nonce-reused", f"Bitstamp nonce {hdr.get('x-auth-nonce')} used twice in one run")
                    nonces.add(hdr.get("x-auth-nonce"))
                    try:
                        ts_ms = int(hdr.get("x-auth-timestamp", ""))
                    except ValueError:
                        V("timestamp-missing", f"Bitstamp timestamp header {hdr.get('x-auth-timestamp')!r}")
                if ts_ms is not None:
                    okts = any(lo - 0.0015 <= ts_ms / 1000.0 <= hi + 0.0015 for lo, hi in wall_ranges(t_lo, max(t_lo, t_hi)))
                    if not okts:
                        V("timestamp-not-current", f"{hdr.get('host')} {m} {path}: timestamp {ts_ms} ms is not a wall-clock value "
                                                   f"readable between the end of the rate-limit wait (loop t={t_lo:.4f}) and the first byte "
                                                   f"on the wire (t={t_hi:.4f}); wall ranges {wall_ranges(t_lo, max(t_lo, t_hi))}")
    spans.sort()
    if any(a2 < b1 for (a1, b1), (a2, b2) in zip(spans, spans[1:])):
        res.probes["overlapping_requests"] += 1
    if any(r.get("outcome") not in ("ok", None) for r in records.values()):
        res.probes["response_error"] += 1
        res.faults["error_responses"] += sum(1 for r in records.values() if r.get("outcome") != "ok")
    # every call must have produced a request (the client must not fail before sending for these inputs)
    for i, c in enumerate(calls):
        if i not in per_call:
            V("request-not-sent", f"{c['name']} raised {records.get(i, {}).get('outcome')} before sending anything "
                                  f"(coid={c['coid']!r})")
    res.nontrivial = bool(res.probes["special_char_param"] or res.probes["overlapping_requests"])
    res.sig = digest_of([(c["name"], "".join(sorted({ch for ch in c["coid"] if not ch.isalnum()})), c["resp"], bool(c["step"]))
                         for c in calls])
    res.digest = digest_of((trace, sorted((k, v.get("outcome")) for k, v in records.items())))
    return res
