"""exsim - the backtesting exchange under the simulated dispatcher.

Real code: BacktestingDispatcher, TaskPool, Exchange, OrderManager, LoanManager,
AccountBalances, all order types, fees, liquidity, lending.MarginLoans, Prices,
Config, TradingSignalSource, FifoQueueEventSource.
Simulated: the strategy (scripted clients acting from bar / order-event /
trading-signal handlers and scheduled jobs, suspending where the script says),
the bar history, loop / clock / ids, a lender that refuses on seeded calls.

Serves C01, C02, C04-C11 and C03. Every run evaluates every oracle; a check only
reports its own property's violations.
"""
import os
import asyncio
import contextvars
import collections
import datetime
import decimal
from decimal import Decimal as D
from fractions import Fraction as F

from ..loop import run_sim, SimDeadlock, SimLimit, UTC
from ..runner import Result, digest_of
from . import exgen

T0 = datetime.datetime(2021, 3, 1, tzinfo=UTC)
QUOTE = exgen.QUOTE


def tmin(k):
    return T0 + datetime.timedelta(minutes=k)


_HP = decimal.Context(prec=80)


def q(x, p, r=decimal.ROUND_HALF_EVEN):
    # the harness's own arithmetic must never be the thing that overflows the 28-digit default context
    return D(x).quantize(D(1).scaleb(-p), rounding=r, context=_HP)


def unit(p):
    return D(1).scaleb(-p)


class Ctx:
    """State of one execution of a scenario."""

    def __init__(self, scn, prop, maxc=None, salt=None, light=False):
        self.scn = scn
        self.prop = prop
        self.maxc = maxc if maxc is not None else scn["maxc"]
        self.salt = salt if salt is not None else scn["salt"]
        self.light = light                 # differential runs: record history only, no oracles
        self.viol = {}                     # prop -> (clause, shape, msg)   (first per property)
        self.stats = collections.Counter()
        self.probes = collections.Counter()
        self.faults = collections.Counter()
        self.states = set()
        self.trace = []
        self.history = []                  # canonical fill history (order creation order)
        self.final = None
        self.outcome = None

    def V(self, prop, clause, msg, shape=None):
        if prop not in self.viol:
            self.viol[prop] = (clause, shape or clause, msg)


def _execute(ctx):
    scn = ctx.scn
    prec = dict(scn["prec"])          # a run may refine precisions ("reprec"): never touch the scenario itself
    bases = scn["bases"]
    inv = scn.get("inv")
    # pairs: every base against QUOTE, optionally one inverse pair QUOTE/<inv quote> (a symbol that reaches the margin
    # quote symbol only through 1/price)
    pair_syms = [(b, QUOTE) for b in bases] + ([(QUOTE, inv["quote"])] if inv else [])
    if scn.get("cross") and len(bases) >= 2:
        pair_syms.append((bases[0], bases[1]))
    npairs = len(pair_syms)
    pb = [x[0] for x in pair_syms]
    pq = [x[1] for x in pair_syms]
    symbols = [QUOTE] + bases + ([inv["quote"]] if inv else [])
    fee = scn["fee"]
    pct = D(fee["pct"])
    minfee = D(fee["min"])
    liq = scn["liq"]
    lend = scn["lend"]
    init = {k: D(v) for k, v in scn["init"].items()}

    # a pair may have its own (coarser) precisions, set with set_pair_info; they take precedence over the symbols'
    pinfo = {int(k): v for k, v in (scn.get("pair_info") or {}).items() if int(k) < npairs}

    def qpp(pi):
        return pinfo[pi][1] if pi in pinfo else prec[pq[pi]]

    def bpp(pi):
        return pinfo[pi][0] if pi in pinfo else prec[pb[pi]]

    def uqp(pi):
        return unit(qpp(pi))

    async def main(loop):
        import basana as bs
        from basana.backtesting import exchange as ex, liquidity, lending, fees, errors
        from basana.core import event, bar, errors as cerrors
        from basana.core.event_sources import trading_signal as ts
        BUY, SELL = bs.OrderOperation.BUY, bs.OrderOperation.SELL
        d = bs.backtesting_dispatcher(max_concurrent=ctx.maxc)
        pairs = [bs.Pair(b_, q_) for b_, q_ in pair_syms]
        class ReceivedAssetFee(fees.FeeStrategy):
            # public extension point: a scheme that charges buys in the asset they receive (as several exchanges do)
            def calculate_fees(self, order, balance_updates):
                b_ = order.pair.base_symbol
                amt_ = balance_updates.get(b_, D(0))
                if order.operation == BUY and amt_ > 0:
                    return {b_: -(amt_ * D("0.001"))}
                return {}
        fee_s = (fees.NoFee() if fee["kind"] == "none" else ReceivedAssetFee() if fee["kind"] == "received"
                 else fees.Percentage(pct, minfee))
        flaky = dict(raised=False, n=0)
        if scn.get("flaky_fee"):
            inner_fee_s = fee_s

            class FlakyFee(fees.FeeStrategy):
                # a user-supplied strategy with a bug: it raises once, in the middle of the exchange's bar processing
                def calculate_fees(self, order, balance_updates):
                    if M["in_api"] == 0:
                        flaky["n"] += 1
                        if flaky["n"] == scn["flaky_fee"]:
                            flaky["raised"] = True
                            ctx.faults["user_fee_strategy_raises_during_bar"] += 1
                            raise RuntimeError("fee plugin boom")
                    return inner_fee_s.calculate_fees(order, balance_updates)
            fee_s = FlakyFee()
        if liq["kind"] == "inf":
            liq_f = liquidity.InfiniteLiquidity
        else:
            liq_f = (lambda: liquidity.VolumeShareImpact(D(liq["limit"]), D(liq["impact"])))
        conds = {}
        default_cond = None

        def mk_cond(c, sym):
            isym = c["interest_symbol"]
            if isym == "same":
                isym = sym
            return lending.MarginLoanConditions(
                interest_symbol=isym, interest_percentage=D(c["interest_percentage"]),
                interest_period=datetime.timedelta(seconds=c["interest_period"]),
                min_interest=D(c["min_interest"]), margin_requirement=D(c["margin_requirement"]))

        lender_calls = [0]
        if lend:
            refuse_after = lend.get("refuse_after")

            class Lender(lending.MarginLoans):
                # public extension point; refuses on a seeded call (buggify: a lender may always say no)
                def create_loan(self, symbol, amount, created_at):
                    lender_calls[0] += 1
                    if refuse_after is not None and lender_calls[0] == refuse_after + 1:
                        ctx.faults["lender_refusal"] += 1
                        raise errors.Error("lender refuses this loan")
                    return super().create_loan(symbol, amount, created_at)

            if lend["default"] is not None:
                dc = lend["default"]
                if dc["interest_symbol"] == "same":
                    # a default that charges interest in the borrowed symbol needs one object per symbol
                    default_cond = None
                    ls = Lender(QUOTE, default_conditions=None)
                    for sym in symbols:
                        conds[sym] = mk_cond(dc, sym)
                else:
                    default_cond = mk_cond(dc, QUOTE)
                    ls = Lender(QUOTE, default_conditions=default_cond)
            else:
                ls = Lender(QUOTE, default_conditions=None)
            for sym, c in lend["per_symbol"].items():
                conds[sym] = mk_cond(c, sym)
            for sym, c in conds.items():
                ls.set_conditions(sym, c)
        else:
            ls = lending.NoLoans()

        def cond_of(sym):
            return conds.get(sym, default_cond)

        if lend and scn.get("reuse_lender"):
            # the same lending strategy object served an earlier backtest (sequential backtests / parameter sweeps)
            ex.Exchange(bs.backtesting_dispatcher(max_concurrent=1), {QUOTE: D(1000)}, lending_strategy=ls)
            ctx.probes["lender_reused"] += 1
        e = ex.Exchange(d, dict(init), liquidity_strategy_factory=liq_f, fee_strategy=fee_s, lending_strategy=ls)
        for sym, p in prec.items():
            e.set_symbol_precision(sym, p)
        for pi_, (bp_o, qp_o) in pinfo.items():
            e.set_pair_info(pairs[pi_], bs.PairInfo(base_precision=bp_o, quote_precision=qp_o))
            ctx.probes["pair_specific_precision"] += 1

        # ------------------------------------------------------------ bars
        bars = {}
        bar_list = []
        slow = scn.get("slow") or {}
        last_k = 0
        for pi, rows in enumerate(scn["bars"]):
            evs = []
            span = 1
            if slow.get("pair") == pi and any((r["k"] + 1) % slow["span"] == 0 for r in rows):
                span = slow["span"]
                ctx.probes["pair_with_longer_bars"] += 1
            for bi, r in enumerate(rows):
                if (r["k"] + 1) % span:
                    continue            # the slow pair only has bars that end on multiples of its span
                last_k = max(last_k, r["k"] + 1)
                o, h, l, c = [max(q(D(x) / 100, qpp(pi)), uqp(pi)) for x in (r["o"], r["h"], r["l"], r["c"])]
                h = max(o, h, l, c)
                l = min(o, h, l, c)
                off = datetime.timedelta(microseconds=(250000 * (pi + 2)) % 1000000) if scn.get("subsec") else datetime.timedelta(0)
                b = bar.Bar(tmin(r["k"] + 1 - span) + off, pairs[pi], o, h, l, c, D(r["v"]))
                ev = bar.BarEvent(tmin(r["k"] + 1) + off, b)
                ev._pi = pi
                ev._bi = bi
                evs.append(ev)
                bars[(pi, ev.when)] = b
            bar_list.append(evs)

        coarse_evs = []
        if scn.get("coarse"):
            fine = bar_list[0]
            for j in range(0, len(fine) - 1, 2):
                b1, b2 = fine[j].bar, fine[j + 1].bar
                cb = bar.Bar(b1.datetime, pairs[0], b1.open, max(b1.high, b2.high), min(b1.low, b2.low), b2.close,
                             b1.volume + b2.volume)
                ev = bar.BarEvent(fine[j + 1].when, cb)
                ev._pi = 0
                ev._bi = -1
                coarse_evs.append(ev)
            if coarse_evs:
                ctx.probes["second_bar_source_for_a_pair"] += 1

        # ------------------------------------------------------------ model
        M = dict(orders={}, seq=[], loans={}, last_close={}, oe=collections.defaultdict(list), nobs=0,
                 barfill=collections.Counter(), in_handler=0, dirty=True, offgrid=bool(scn.get("offgrid_init")), unknown_ids=0, prev_open_loans=None,
                 pair_bars_seen=collections.defaultdict(list))
        light = ctx.light
        V = ctx.V
        M["in_api"] = 0
        watch = None if light else asyncio.Event()

        async def watcher():
            # "at every point of a backtest": the exchange's calls do not suspend, so the account is only ever seen
            # between calls. Should one suspend half way (and let other handlers run), the account is looked at right
            # there, on every loop iteration for a few iterations, not only when another handler happens to call.
            while True:
                await watch.wait()
                watch.clear()
                for _ in range(6):
                    await asyncio.sleep(0)
                    if M["in_api"] <= 0:
                        break
                    ctx.probes["exchange_call_found_suspended"] += 1
                    M["dirty"] = True
                    await guarded(observe("while an exchange call is suspended"))

        def est_price(kind, lim, stp, pi):
            if kind in ("limit", "stoplimit"):
                return lim
            if kind == "stop":
                return stp
            return M["last_close"].get(pi)

        def fee_of(quote_amt, pi):
            if fee["kind"] in ("none", "received"):
                return D(0)
            return q(max(abs(quote_amt) * pct / 100, minfee), qpp(pi), decimal.ROUND_UP)

        def R_of(kind, side, pi, amt, lim, stp):
            b = pb[pi]
            qs = pq[pi]
            sign = 1 if side == "buy" else -1
            upd = {b: amt * sign}
            est = est_price(kind, lim, stp, pi)
            if est:
                upd[qs] = q(amt * est, qpp(pi)) * -sign
            upd = {k: v for k, v in upd.items() if v}
            if len(upd) == 2 and fee["kind"] != "none":
                f = fee_of(upd[qs], pi)
                upd[qs] = upd.get(qs, D(0)) - f
            return {k: -v for k, v in upd.items() if v < 0}

        def conv(amount, frm, to):
            """exact conversion at last closes, None without a price"""
            if frm == to or amount == 0:
                return F(amount)
            for pi in range(npairs):
                lc = M["last_close"].get(pi)
                if lc is None:
                    continue
                if pb[pi] == frm and pq[pi] == to:
                    return F(amount) * F(lc)
                if pb[pi] == to and pq[pi] == frm:
                    return F(amount) / F(lc)
            return None

        def av(bal, s):
            return bal[s].available if s in bal else D(0)

        # ------------------------------------------------------------ observation
        async def snapshot():
            bal = await e.get_balances()
            oo = sorted((o.id, str(o.amount_filled)) for o in await e.get_open_orders())
            try:
                ol = sorted(l.id for l in await e.get_loans(is_open=True))
            except errors.NoPrice:
                ol = None
            return ({k: (v.available, v.hold, v.borrowed) for k, v in bal.items()
                     if (v.available or v.hold or v.borrowed)}, oo, ol)

        async def observe(where, bar_ev=None):
            M["nobs"] += 1
            bal = await e.get_balances()
            if light:
                return bal
            now = d.now() if d.now_available else None
            key = {s_: (b_.available, b_.hold, b_.borrowed) for s_, b_ in bal.items()}
            if not M["dirty"] and bar_ev is None and key == M.get("prev_key") and now == M.get("prev_now"):
                # nothing happened since the last full observation (no API call, no bar processed, same clock)
                ctx.stats["obs_unchanged"] += 1
                return bal
            M["dirty"] = False
            M["prev_key"] = key
            M["prev_now"] = now
            ctx.stats["obs_full"] += 1
            allo = await e.get_orders()
            openo = await e.get_open_orders()
            closed_loans = await e.get_loans(is_open=False)
            try:
                open_loans = await e.get_loans(is_open=True)
            except errors.NoPrice:
                open_loans = None
                ctx.stats["obs_skipped_noprice"] += 1
            # ---- C02 / C08 dust
            for s, b in bal.items():
                if b.available < 0 or b.hold < 0 or b.borrowed < 0:
                    V("C02", "negative-balance", f"{s}: {b} at {where}")
                if b.total != b.available + b.hold - b.borrowed:
                    V("C02", "total-inconsistent", f"{s}: {b}")
                p_ = prec.get(s)
                if p_ is not None and not M["offgrid"]:
                    for v in (b.available, b.hold, b.borrowed):
                        if v != q(v, p_, decimal.ROUND_DOWN):
                            V("C08", "dust", f"{s} balance {v} is not a multiple of 1e-{p_} at {where}")
                if b.hold > b.available + b.hold:
                    V("C06", "hold-exceeds-balance", f"{s}: {b}")
            # ---- C01
            exp = {s: D(v) for s, v in init.items()}
            for oi in allo:
                o = M["orders"].get(oi.id)
                if o is None:
                    M["unknown_ids"] += 1
                    continue
                sign = 1 if oi.operation == BUY else -1
                b_ = pb[o["pi"]]
                qs_ = pq[o["pi"]]
                exp[b_] = exp.get(b_, D(0)) + sign * oi.amount_filled
                exp[qs_] = exp.get(qs_, D(0)) - sign * oi.quote_amount_filled
                for s, f in oi.fees.items():
                    exp[s] = exp.get(s, D(0)) - f
                # ---- C09
                if fee["kind"] == "received" or M.get("prec_changed"):
                    pass            # a user-defined scheme, or fees charged under a precision that changed since: C09 is
                    #                 stated for the built-in schemes under one configured precision
                elif fee["kind"] == "none":
                    if oi.fees:
                        V("C09", "fee-with-nofee", f"order charged {oi.fees} under the no-fee scheme")
                elif oi.quote_amount_filled == 0:
                    if oi.fees:
                        V("C09", "fee-without-trade", f"order that never traded paid {oi.fees}")
                else:
                    expf = fee_of(oi.quote_amount_filled, o["pi"])
                    want = {qs_: expf} if expf else {}
                    if dict(oi.fees) != want:
                        V("C09", "fee-amount", f"order fees {dict(oi.fees)} != {want} for quote filled "
                                               f"{oi.quote_amount_filled} (pct={pct}, min={minfee}, precision={qpp(o['pi'])}, "
                                               f"fills={o['nfills']})")
                    if any(v < 0 for v in oi.fees.values()):
                        V("C09", "negative-fee", f"{oi.fees}")
            for l in closed_loans:
                for s, v in l.paid_interest.items():
                    exp[s] = exp.get(s, D(0)) - v
            for s in set(exp) | set(bal):
                tot = bal[s].total if s in bal else D(0)
                if tot != exp.get(s, D(0)):
                    V("C01", "ledger", f"{s}: total {tot} != initial + fills - fees - interest = {exp.get(s, D(0))} at {where}")
            # ---- C02 borrowed == sum of open principal
            if open_loans is not None:
                bl = collections.defaultdict(D)
                for l in open_loans:
                    bl[l.borrowed_symbol] += l.borrowed_amount
                for s in set(bl) | set(bal):
                    got = bal[s].borrowed if s in bal else D(0)
                    if got != bl.get(s, D(0)):
                        V("C02", "borrowed-vs-loans", f"{s}: borrowed {got} != open loan principal {bl.get(s, D(0))} at {where}")
            # ---- C05 / C04 / C08 per order
            open_ids = [o.id for o in openo]
            if len(set(open_ids)) != len(open_ids):
                V("C05", "listing", f"get_open_orders() lists an order twice at {where}")
            open_set = set(open_ids)
            model_open = set()
            exph = collections.defaultdict(D)
            fills_this_obs = []
            for oi in allo:
                o = M["orders"].get(oi.id)
                if o is None:
                    continue
                sign = 1 if oi.operation == BUY else -1
                if oi.amount_filled + oi.amount_remaining != oi.amount or oi.amount_filled > oi.amount \
                        or oi.amount != o["amt"]:
                    V("C05", "amounts", f"filled {oi.amount_filled} + remaining {oi.amount_remaining} vs amount {oi.amount}")
                prev = o["last"]
                if prev is not None:
                    if oi.amount_filled < prev.amount_filled:
                        V("C05", "filled-decreased", f"{prev.amount_filled} -> {oi.amount_filled}")
                    if not prev.is_open and (oi.is_open or (oi.amount_filled, oi.quote_amount_filled, oi.fees,
                                                           set(oi.loan_ids)) !=
                                             (prev.amount_filled, prev.quote_amount_filled, prev.fees, set(prev.loan_ids))):
                        V("C05", "closed-order-changed", f"{prev} -> {oi}")
                o["last"] = oi
                if (oi.id in open_set) != oi.is_open:
                    V("C05", "listing", f"order is_open={oi.is_open} but in get_open_orders()={oi.id in open_set}")
                if oi.is_open:
                    model_open.add(oi.id)
                kind = o["kind"]
                if kind in ("market", "stop") and 0 < oi.amount_filled < oi.amount:
                    V("C05", "partial-market-stop", f"{kind} order filled {oi.amount_filled} of {oi.amount}")
                f = oi.fees.get(pq[o["pi"]], D(0))
                pf, pqf, pfee = o["prev"]
                if (oi.amount_filled, oi.quote_amount_filled, f) != (pf, pqf, pfee):
                    fb = oi.amount_filled - pf
                    fq = oi.quote_amount_filled - pqf
                    ff = f - pfee
                    dbase = fb * sign
                    dquote = -fq * sign - ff
                    for s, v in ((pb[o["pi"]], dbase), (pq[o["pi"]], dquote)):
                        if v < 0:
                            o["spent"][s] = o["spent"].get(s, D(0)) + (-v)
                    o["prev"] = (oi.amount_filled, oi.quote_amount_filled, f)
                    o["nfills"] += 1
                    ctx.stats["fills"] += 1
                    fills_this_obs.append((o, oi, fb, fq, ff))
                    if fee["kind"] != "none" and o["nfills"] >= 2 and fq * pct / 100 != q(fq * pct / 100, qpp(o["pi"])):
                        ctx.probes["multi_fill_fee_remainder"] += 1
                # closure causes
                if not oi.is_open and o["closed_at_obs"] is None:
                    o["closed_at_obs"] = M["nobs"]
                    full = oi.amount_filled == oi.amount
                    cause = "filled" if full else "cancelled" if o["cancelled"] else "fok" if kind in ("market", "stop") else None
                    if cause is None:
                        V("C05", "closed-without-cause", f"{kind} order closed with {oi.amount_filled}/{oi.amount} filled and no cancel")
                    else:
                        ctx.probes["close_" + cause] += 1
                    if o["ar"] and oi.amount_filled > 0:
                        mark_autorepay(o)
                    if cause == "fok" and bar_ev is None:
                        V("C05", "closed-without-cause", f"{kind} order closed outside bar processing at {where}")
                    if lend and open_loans and M["last_close"]:
                        ctx.probes["close_with_loan_open"] += 1
                if oi.is_open:
                    if o["cancelled"]:
                        V("C05", "open-after-cancel", "cancel_order returned but the order is still open")
                    if oi.amount_filled == oi.amount:
                        V("C05", "open-although-filled", "completely filled order still open")
                    for s, r in o["R"].items():
                        exph[s] += max(D(0), r - o["spent"].get(s, D(0)))
            # listing filters
            if ctx.prop == "C05" or M["nobs"] % 7 == 0:
                for pi, p in enumerate(pairs):
                    want = sorted(i for i in model_open if M["orders"][i]["pi"] == pi)
                    got = sorted(o.id for o in await e.get_open_orders(p) if o.id in M["orders"])
                    if got != want:
                        V("C05", "listing", f"get_open_orders({p}) returned {len(got)} orders, {len(want)} are open")
                    got2 = sorted(o.id for o in await e.get_orders(pair=p, is_open=False) if o.id in M["orders"])
                    want2 = sorted(i for i, o in M["orders"].items() if o["pi"] == pi and o["last"] is not None
                                   and not o["last"].is_open)
                    if got2 != want2:
                        V("C05", "listing", f"get_orders({p}, is_open=False) returned {len(got2)}, model {len(want2)}")
            missing = [i for i in M["orders"] if M["orders"][i]["last"] is None]
            if missing:
                V("C05", "listing", f"accepted order {missing[0]} not returned by get_orders()")
            # ---- fills: C03 / C04 / C08
            if fills_this_obs and bar_ev is None:
                V("C04", "fill-outside-bar", f"an order's filled amount changed at {where}, not while a bar of its pair was processed")
            if bar_ev is not None:
                pi_bar = bar_ev._pi
                br = bar_ev.bar
                when = bar_ev.when
                for (o, oi, fb, fq, ff) in fills_this_obs:
                    check_fill(o, oi, fb, fq, ff, pi_bar, br, when)
                if not M.get("bar_aborted"):
                    check_bar_progress(pi_bar, br, when, fills_this_obs, bal)
            # ---- C06 holds
            for s in set(exph) | set(bal):
                h = bal[s].hold if s in bal else D(0)
                if h != exph.get(s, D(0)):
                    V("C06", "hold-model", f"{s}: on hold {h} != reservations of open orders {exph.get(s, D(0))} at {where}; "
                                           f"open={[(M['orders'][i]['kind'], M['orders'][i]['side'], str(M['orders'][i]['R'])) for i in model_open][:4]}",
                      shape="hold-leak" if not model_open else "hold-model")
            # ---- C11 loans
            if open_loans is not None and now is not None:
                check_loans(open_loans, closed_loans, now, where)
                if bar_ev is not None and lend and M.get("open_loans_prev") is not None:
                    await check_largest_first_on_fill(bar_ev, fills_this_obs, bal, open_loans, closed_loans)
            M["open_loans_prev"] = None if open_loans is None else [(l.id, l.borrowed_symbol, l.borrowed_amount) for l in open_loans]
            M["prev_bal"] = bal
            ctx.states.add(hash((len(model_open), len(open_loans or ()), min(M["in_handler"], 4))) & 0xffffffff)
            return bal

        async def margin_rule_explains_skip(lid, order, sym):
            """Would the margin rule, evaluated the way basana evaluates it (interest of the loan being repaid both paid and
            still counted as outstanding - the recorded finding D15), have vetoed repaying `lid` at its turn in the loop?
            order: [(loan id, principal, interest dict, repaid?)] in the order of the loop. Only used to name the shape of
            a mismatch that was already found; None when prices are missing."""
            bal = await e.get_balances()
            try:
                open_now = await e.get_loans(is_open=True)
            except errors.NoPrice:
                return None
            idx = [i for i, x in enumerate(order) if x[0] == lid][0]
            p_l, intr_l = order[idx][1], order[idx][2]
            later_repaid = [x for x in order[idx + 1:] if x[3]]
            tot = {s_: b_.available + b_.hold for s_, b_ in bal.items()}
            bor = {s_: b_.borrowed for s_, b_ in bal.items()}
            interest = collections.defaultdict(D)
            for l in open_now:
                for s_, v in l.outstanding_interest.items():
                    interest[s_] += v
            for (_, amt, intr, _) in later_repaid:
                tot[sym] = tot.get(sym, D(0)) + amt
                bor[sym] = bor.get(sym, D(0)) + amt
                for s_, v in intr.items():
                    tot[s_] = tot.get(s_, D(0)) + v
                    interest[s_] += v
            tot[sym] = tot.get(sym, D(0)) - p_l
            bor[sym] = bor.get(sym, D(0)) - p_l
            for s_, v in intr_l.items():
                tot[s_] = tot.get(s_, D(0)) - v
            eq = F(0)
            used = F(0)
            for s_ in set(tot) | set(bor):
                net = tot.get(s_, D(0)) - bor.get(s_, D(0))
                if net > 0:
                    v = conv(net, s_, QUOTE)
                    if v is None:
                        return None
                    eq += v
                if bor.get(s_, D(0)) > 0:
                    c = cond_of(s_)
                    v = conv(bor[s_], s_, QUOTE)
                    if c is None or v is None:
                        return None
                    used += v * F(c.margin_requirement)
            if used == 0:
                return False
            itot = F(0)
            for s_, v in interest.items():
                cv = conv(v, s_, QUOTE)
                if cv is None:
                    return None
                itot += cv
            level = eq / (used + itot) * 100
            return 0 < level < 100

        async def check_largest_first_on_fill(bar_ev, fills, bal, open_loans, closed_loans):
            """C11 largest-first for an auto-repay order closed by a fill. Exact when it is the only order of its pair that
            was touched by this bar: the funds at the start of its repayment loop are then what is available now plus what
            the loop paid out."""
            pi_bar = bar_ev._pi
            touched = [o for o in (M["orders"][i] for i in M["seq"]) if o["pi"] == pi_bar and o["open_before_bar"]
                       and (o["closed_at_obs"] == M["nobs"] or any(f[0] is o for f in fills))]
            if len(touched) != 1:
                return
            o = touched[0]
            if not (o["ar"] and o["closed_at_obs"] == M["nobs"] and o["last"].amount_filled > 0):
                return
            sym = pb[o["pi"]] if o["side"] == "buy" else pq[o["pi"]]
            before = [(lid, amt) for (lid, s_, amt) in M["open_loans_prev"] if s_ == sym]
            if len(before) < 1:
                return
            now_open = {l.id: l for l in open_loans}
            now_closed = {l.id: l for l in closed_loans}
            cand = []
            for lid, amt in before:
                if lid in now_open:
                    cand.append((lid, amt, dict(now_open[lid].outstanding_interest), False))
                elif lid in now_closed:
                    cand.append((lid, amt, dict(now_closed[lid].paid_interest), True))
                else:
                    return
            avail = {s_: b_.available for s_, b_ in bal.items()}
            for lid, amt, intr, repaid in cand:
                if repaid:
                    avail[sym] = avail.get(sym, D(0)) + amt
                    for s_, v in intr.items():
                        avail[s_] = avail.get(s_, D(0)) + v
            order = sorted(cand, key=lambda x: x[1], reverse=True)
            if len({a for _, a, _, _ in order}) != len(order):
                return            # ties in principal may be taken in either order
            expect = set()
            for lid, amt, intr, repaid in order:
                cost = collections.defaultdict(D)
                cost[sym] += amt
                for s_, v in intr.items():
                    cost[s_] += v
                if all(avail.get(s_, D(0)) >= v for s_, v in cost.items()):
                    expect.add(lid)
                    for s_, v in cost.items():
                        avail[s_] -= v
            got = {lid for lid, _, _, repaid in order if repaid}
            if len(order) >= 2:
                ctx.probes["autorepay_with_2_loans"] += 1
            if got == expect:
                ctx.probes["largest_first_checked"] += 1
                return
            shape = "largest-first"
            why = ""
            for lid in [l for l, _, _, _ in order if l in expect and l not in got][:1]:
                if await margin_rule_explains_skip(lid, order, sym):
                    shape = "margin-veto-of-affordable-repayment"
                    why = "; at its turn the margin rule, counting the loan's own interest as still outstanding, vetoes the repayment"
                    break
                if got - expect:
                    # the funds went to a loan with a smaller principal instead: no need to ask the exchange
                    why = "; a loan with a smaller principal was repaid instead"
                    break
                try:
                    await e.repay_loan(lid)
                    M["loans"].get(lid, {})["explained"] = True
                    M["dirty"] = True
                    shape = "affordable-loan-skipped"
                    why = "; repaying it right afterwards, in the same state, succeeds"
                except errors.NotEnoughBalance as x:
                    if "Margin level too low" in str(x):
                        shape = "margin-veto-of-affordable-repayment"
                        why = f"; repaying it right afterwards is vetoed by the margin rule ({x})"
                    else:
                        shape = None
                except errors.Error:
                    shape = None
                except Exception as x:
                    if not raised_inside_basana(x):
                        raise
                    why = f"; repaying it right afterwards raises {type(x).__name__}"
            if shape:
                V("C11", "largest-first", f"auto-repay {o['kind']} {o['side']} order completed by the bar at {bar_ev.when}: loans in {sym} "
                                          f"(principal, repaid) {[(str(a), r) for _, a, _, r in order]}; with the funds available when the "
                                          f"order closed, greedy largest-first repays {[(str(a), l in expect) for l, a, _, _ in order]}" + why,
                  shape=shape)

        def check_fill(o, oi, fb, fq, ff, pi_bar, br, when):
            kind, side = o["kind"], o["side"]
            buy = side == "buy"
            lim, stp = o["lim"], o["stp"]
            bp = bpp(o["pi"])
            qp = qpp(o["pi"])
            uq = uqp(o["pi"])
            if o["pi"] != pi_bar:
                V("C04", "fill-wrong-pair", f"order of pair #{o['pi']} filled while a bar of pair #{pi_bar} was processed")
                return
            acc = o["acc"]
            if acc is not None and o["from_handler"] and when <= acc:
                V("C03", "look-ahead", f"{kind} {side} order submitted from a handler at {acc} was filled by the bar at "
                                       f"{when} (max_concurrent={ctx.maxc}, sub_first={scn['sub_first']})")
            if acc is not None and when < acc:
                V("C03", "look-ahead", f"order submitted at {acc} filled by an earlier bar {when}")
            h = uq / 2
            if fb <= 0 or fb != q(fb, bp, decimal.ROUND_DOWN) or fq != q(fq, qp) or ff != q(ff, qp):
                V("C08", "fill-off-grid", f"fill base {fb} quote {fq} fee {ff} (precisions {bp}/{qp})")
            if fq < 0 or ff < 0:
                V("C09", "negative-fee", f"fill quote {fq} fee {ff}")
            if buy and fq < br.low * fb - h:
                V("C04", "better-than-extreme", f"buy {fb} for {fq} below the bar's low {br.low}")
            if not buy and fq > br.high * fb + h:
                V("C04", "better-than-extreme", f"sell {fb} for {fq} above the bar's high {br.high}")
            if kind in ("limit", "stoplimit"):
                if buy and fq > lim * fb + h:
                    V("C04", "worse-than-limit", f"{kind} buy: paid {fq} for {fb} (={fq / fb:.8f} each) with limit {lim}; "
                                                 f"bar o={br.open} h={br.high} l={br.low} v={br.volume}")
                if not buy and fq < lim * fb - h:
                    V("C04", "worse-than-limit", f"{kind} sell: got {fq} for {fb} (={fq / fb:.8f} each) with limit {lim}")
                if buy and br.low > lim:
                    V("C04", "limit-not-reached", f"{kind} buy limit {lim} filled in a bar with low {br.low}")
                if not buy and br.high < lim:
                    V("C04", "limit-not-reached", f"{kind} sell limit {lim} filled in a bar with high {br.high}")
            if kind in ("market", "stop"):
                if not (br.low * fb - h <= fq <= br.high * fb + h):
                    V("C04", "outside-range", f"{kind} {side} {fb} for {fq} outside [{br.low}, {br.high}]")
                ref = br.open if kind == "market" else stp
                if buy and fq < ref * fb - h:
                    V("C04", "better-than-reference", f"{kind} buy {fb} for {fq} better than {'open' if kind == 'market' else 'stop'} {ref}")
                if not buy and fq > ref * fb + h:
                    V("C04", "better-than-reference", f"{kind} sell {fb} for {fq} better than {'open' if kind == 'market' else 'stop'} {ref}")
            if kind in ("stop", "stoplimit"):
                reached = False
                for (w2, b2) in M["pair_bars_seen"][o["pi"]]:
                    if (acc is None or (w2 > acc if o["from_handler"] else w2 >= acc)) and w2 <= when:
                        if (b2.high >= stp) if buy else (b2.low <= stp):
                            reached = True
                            break
                if not reached:
                    V("C04", "stop-not-reached", f"{kind} {side} stop {stp} traded at {when} before any bar reached it")
            if kind != "market":
                ctx.probes["nonmarket_fill"] += 1
            if oi.amount_filled < oi.amount:
                ctx.probes["partial_fill"] += 1
            key = (o["pi"], when, br.datetime)
            M["barfill"][key] += fb
            if liq["kind"] == "vs":
                cap = br.volume * D(liq["limit"]) / 100
                if M["barfill"][key] > cap:
                    V("C08", "liquidity-cap", f"{M['barfill'][key]} filled in the bar at {when}, model grants "
                                              f"{cap} (volume {br.volume} x {liq['limit']}%)")

        def check_bar_progress(pi_bar, br, when, fills, bal):
            """C04 progress clauses and C08 fit / no-fit clauses, for orders of this pair that were open when the
            bar was processed (acceptance order = processing order)."""
            filled_by = {o["id"]: fb for (o, oi, fb, fq, ff) in fills}
            cands = [M["orders"][i] for i in M["seq"] if M["orders"][i]["pi"] == pi_bar
                     and M["orders"][i]["open_before_bar"]]
            if not cands:
                return
            inf = liq["kind"] == "inf"
            uq = uqp(pi_bar)
            qs = pq[pi_bar]
            total = None if inf else br.volume * D(liq["limit"]) / 100
            impact = D(0) if inf else D(liq["impact"]) / 100
            prevb = M.get("bal_before_bar") or {}
            borrowed_any = any(b.borrowed for b in prevb.values()) if prevb else True
            # every order may spend its own reservation plus free funds: the orders of this pair are all funded,
            # whatever order they are processed in, if the free quote covers the sum of their possible shortfalls
            need = D(0)
            need_of = {}
            dust = set()
            for o in cands:
                pend = o["amt"] - o["filled_before_bar"]
                own = max(D(0), o["R"].get(qs, D(0)) - o["spent_before_bar"].get(qs, D(0)))
                if o["side"] == "buy":
                    cost = pend * br.high * (1 + impact)
                    ubq = cost + max(cost * pct / 100, minfee) + 2 * uq if fee["kind"] != "none" else cost + 2 * uq
                else:
                    ubq = max(pend * br.high * pct / 100, minfee) + 2 * uq if fee["kind"] != "none" else D(0)
                need += max(D(0), ubq - own)
                need_of[o["id"]] = max(D(0), ubq - own)
                # an order whose traded quote amount would round to nothing cannot trade at all
                if pend * br.low * (1 - impact) < uq:
                    dust.add(o["id"])
            free_q = prevb[qs].available if qs in prevb else D(0)
            # per order: only orders processed before it that actually traded can have used free funds
            used_before = D(0)
            rem = total
            if len(cands) >= 2 and not inf:
                ctx.probes["competing_orders_in_bar"] += 1
            for o in cands:
                pend = o["amt"] - o["filled_before_bar"]
                got = filled_by.get(o["id"], D(0))
                kind, side = o["kind"], o["side"]
                buy = side == "buy"
                acc = o["acc"]
                ample = (not borrowed_any) and free_q >= used_before + need_of[o["id"]]
                if got > 0:
                    used_before += need_of[o["id"]]
                eligible = acc is None or (when > acc if o["from_handler"] else when >= acc)
                if kind in ("market", "stop") and eligible and o["last"] is not None and o["last"].is_open \
                        and not o["cancelled"]:
                    V("C05", "fok-order-survived-bar", f"{kind} {side} order accepted at {acc} is still open after the bar of its "
                                                       f"pair at {when} (volume {br.volume}) was processed: market and stop orders are "
                                                       f"filled completely or closed by the first bar after acceptance")
                trig = None
                if kind == "market":
                    trig = True
                elif kind == "stop":
                    trig = (br.high >= o["stp"]) if buy else (br.low <= o["stp"])
                elif kind == "limit":
                    trig = (br.low <= o["lim"]) if buy else (br.high >= o["lim"])
                if not inf and kind in ("market", "stop"):
                    if got > 0 and pend > rem:
                        V("C08", "fill-exceeds-remaining-liquidity", f"{kind} order needing {pend} was filled with only {rem} left in the bar")
                    if got == 0 and trig and eligible and ample and pend <= rem and pend > 0 and o["id"] not in dust:
                        # truncation of the remaining liquidity to the base grid can never hurt an on-grid amount
                        V("C08", "fitting-order-not-filled", f"{kind} {side} order for {pend} fits the remaining liquidity {rem} "
                                                             f"of the bar at {when} and is funded, but was not filled")
                    if pend > rem and trig:
                        ctx.probes["fok_for_liquidity"] += 1
                if inf and ample and eligible and trig and kind in ("market", "limit", "stop") and o["id"] not in dust:
                    if got != pend:
                        V("C04", "no-progress", f"{kind} {side} order (pending {pend}, limit {o['lim']}, stop {o['stp']}) with "
                                                f"unlimited liquidity and ample funds got {got} in the bar at {when} "
                                                f"o={br.open} h={br.high} l={br.low} c={br.close}")
                    else:
                        ctx.probes["progress_checked"] += 1
                if rem is not None:
                    rem -= got
                    if rem <= 0 and len(cands) >= 2:
                        ctx.probes["liquidity_cap_binding"] += 1

        def check_loans(open_loans, closed_loans, now, where):
            seen_open = set()
            for l in open_loans:
                seen_open.add(l.id)
                meta = M["loans"].get(l.id)
                if meta is None:
                    # created by an auto-borrow order accepted in the call we are observing
                    meta = M["loans"][l.id] = dict(created=now, sym=l.borrowed_symbol, amt=l.borrowed_amount,
                                                   seen_open=True, closed=False, last_int=None)
                meta["seen_open"] = True
                c = cond_of(l.borrowed_symbol)
                if c is None:
                    V("C10", "loan-without-conditions", f"open loan in {l.borrowed_symbol} although no lending conditions exist for it")
                    continue
                oi = l.outstanding_interest
                if set(oi) - {c.interest_symbol}:
                    V("C11", "interest-symbol", f"outstanding interest {dict(oi)} not in {c.interest_symbol}")
                got = oi.get(c.interest_symbol, D(0))
                ip = prec[c.interest_symbol]
                u = F(unit(ip))
                if got < 0 or got != q(got, ip, decimal.ROUND_DOWN):
                    V("C11", "interest-grid", f"outstanding interest {got} negative or off the 1e-{ip} grid")
                mn = (F(c.min_interest) // u) * u
                if F(got) < mn:
                    V("C11", "interest-below-min", f"outstanding interest {got} < minimum {c.min_interest} truncated")
                raw = F(c.interest_percentage) / 100 * F(l.borrowed_amount)
                per = c.interest_period.total_seconds()
                if per:
                    raw *= F((now - meta["created"]).total_seconds()) / F(per)
                rawc = conv(raw, l.borrowed_symbol, c.interest_symbol)
                if rawc is not None:
                    exact = max(rawc, F(c.min_interest))
                    tr = (exact // u) * u
                    # one unit for the truncation, plus the noise of the binary floating point division basana uses for
                    # elapsed / period (relative 1e-16 or so: more than a unit only for amounts with 16+ significant digits)
                    if abs(F(got) - tr) > u + exact / 10 ** 15:
                        V("C11", "interest-amount", f"outstanding interest {got} vs exact {float(exact)} truncated {float(tr)} "
                                                    f"(principal {l.borrowed_amount} {l.borrowed_symbol}, {c.interest_percentage}% per {per}s, "
                                                    f"elapsed {(now - meta['created']).total_seconds()}s) at {where}")
                    if c.interest_symbol == l.borrowed_symbol and meta["last_int"] is not None and got < meta["last_int"]:
                        V("C11", "interest-decreased", f"{meta['last_int']} -> {got}")
                    meta["last_int"] = got
            for l in closed_loans:
                meta = M["loans"].get(l.id)
                if l.outstanding_interest:
                    V("C11", "closed-loan-has-outstanding", f"{dict(l.outstanding_interest)}")
                if meta is None:
                    # never seen open: must stem from a rejected auto-borrow request (rolled back) or a same-call repay
                    if l.id not in M.get("rolled_back_ok", set()):
                        M.setdefault("never_open", set()).add(l.id)
                    continue
                if not meta["closed"]:
                    meta["closed"] = True
                    if not meta.get("explained"):
                        V("C11", "unexplained-closure", f"loan {l.borrowed_amount} {l.borrowed_symbol} closed at {where} without a "
                                                        f"repay_loan call or a traded auto-repay order acquiring {l.borrowed_symbol}")
            for lid, meta in M["loans"].items():
                if not meta["closed"]:
                    meta["explained"] = False
                if meta["seen_open"] and not meta["closed"] and lid not in seen_open:
                    V("C11", "loan-vanished", f"loan {lid} neither open nor closed")

        # ------------------------------------------------------------ operations
        async def api(name, coro_fn, expect_loans_change=None):
            """wraps one API call with before/after observation (C07)"""
            before = None if light else await snapshot()
            M["dirty"] = True
            M["in_api"] += 1
            if watch is not None:
                watch.set()
            try:
                try:
                    r = await coro_fn()
                finally:
                    M["in_api"] -= 1
                ctx.trace.append((name, "ok"))
                return True, r
            except Exception as x:
                if not isinstance(x, (errors.Error, cerrors.Error)):
                    # an error of another kind (an assertion inside the exchange, say) is still "the call raised an
                    # error" for C07 - provided it comes out of the code under test and not out of this harness
                    if not raised_inside_basana(x):
                        raise
                    ctx.stats["api_raised_other_than_basana_error"] += 1
                ctx.trace.append((name, "rej", type(x).__name__))
                ctx.stats["rejected_calls"] += 1
                if not light:
                    after = await snapshot()
                    # (the set of open loans cannot be listed while a price its interest needs is missing: then only
                    # balances and open orders are compared)
                    cmp_ = (0, 1, 2) if None not in (before[2], after[2]) else (0, 1)
                    if any(before[k] != after[k] for k in cmp_):
                        diff = [k for k in cmp_ if before[k] != after[k]]
                        V("C07", "state-changed-by-rejected-call",
                          f"{name} raised {type(x).__name__}({x}) but state changed: balances {before[0]} -> {after[0]}; "
                          f"open orders {len(before[1])} -> {len(after[1])}; open loans "
                          f"{'?' if before[2] is None else len(before[2])} -> {'?' if after[2] is None else len(after[2])}",
                          shape=f"{name.split('(')[0]} raises {type(x).__name__}: {str(x)[:40]}; changed={diff}")
                return False, x

        def resolve_prices(op, pi):
            lc = M["last_close"].get(pi)
            base_px = lc if lc is not None else D(100)
            # ranks around the last close: factors 0.90 .. 1.10, plus a few grid units
            def px(rank, fine):
                f = D(90 + rank * 5 // 2) / 100 if rank < 8 else D(1)
                v = q(base_px * f, qpp(pi)) + (fine % 5 - 2) * uqp(pi)
                return v if v > 0 else uqp(pi)
            return px(op["lim"], op["fine"]), px(op["stp"], op["fine"] // 5)

        async def do_order(op, pi_ctx, from_handler, edge=False, invalid=False, t_ev=None):
            pi = pi_ctx if (op["same_pair"] and pi_ctx is not None) else op["pair"] % npairs
            p = pairs[pi]
            b = pb[pi]
            bp = bpp(pi)
            qp = qpp(pi)
            kind, side = op["otype"], op["side"]
            lim, stp = resolve_prices(op, pi)
            bal = await e.get_balances()
            lc = M["last_close"].get(pi)
            ref = {"market": lc, "limit": lim, "stop": stp, "stoplimit": lim}[kind] or D(100)
            ak = op["amt_kind"]
            if side == "sell":
                have = av(bal, b)
            else:
                have = av(bal, pq[pi]) / ref
            if ak == "small":
                amt = q(D(1 + op["amt"] % 300) / 100, bp, decimal.ROUND_DOWN)
            elif ak == "frac":
                amt = q(have * (op["amt"] % 100 + 1) / 100, bp, decimal.ROUND_DOWN)
            elif ak == "big":
                amt = q(have * 3 + D(op["amt"]), bp, decimal.ROUND_DOWN)
            else:
                amt = q(have, bp, decimal.ROUND_DOWN)
            if ak == "abs":
                amt = D(op["abs"])
                if op.get("abs_lim"):
                    lim = D(op["abs_lim"])
            if amt <= 0:
                amt = unit(bp)
            if bp == 18:
                # use the low-order digits, keep magnitudes small enough for exact 28-digit arithmetic
                amt = min(amt, D(10) ** 5) + D((op["fine"] + 1) * (op["amt"] + 7) * 998244353 % 10 ** 18).scaleb(-18)
            if amt > D(10) ** 9:
                amt = D(10) ** 9          # keep every product within the 28-digit context basana computes in
            if edge:
                # largest amount whose reservation the model says is covered, +delta units
                lo_, hi_ = D(0), q(have * 2 + 10, bp, decimal.ROUND_DOWN)
                u = unit(bp)
                for _ in range(60):
                    mid = q((lo_ + hi_) / 2, bp, decimal.ROUND_DOWN)
                    if mid <= lo_:
                        break
                    R = R_of(kind, side, pi, mid, lim, stp)
                    if all(av(bal, s) >= r for s, r in R.items()):
                        lo_ = mid
                    else:
                        hi_ = mid
                amt = lo_ + op["delta"] * u
                if amt <= 0:
                    amt = u
            ab, ar = op["ab"], op["ar"]
            if invalid:
                how = op["how"]
                if how == "zero_amount":
                    amt = D(0)
                elif how == "neg_amount":
                    amt = -amt
                elif how == "offgrid_amount":
                    amt = amt + unit(bp + 1)
                elif how == "zero_price":
                    lim = stp = D(0)
                elif how == "neg_price":
                    lim = stp = -lim
                elif how == "offgrid_price":
                    lim = lim + unit(qp + 1)
                    stp = stp + unit(qp + 1)
                if kind == "market" and how in ("zero_price", "neg_price", "offgrid_price"):
                    kind = "limit"
            opx = BUY if side == "buy" else SELL
            R = R_of(kind, side, pi, amt, lim, stp) if amt > 0 and lim > 0 and stp > 0 else None
            borrowed_any = any(v.borrowed for v in bal.values())
            loans_before = None
            if lend and not light:
                try:
                    loans_before = {l.id for l in await e.get_loans()}
                except errors.NoPrice:
                    loans_before = None

            async def call():
                if kind == "market":
                    return await e.create_market_order(opx, p, amt, auto_borrow=ab, auto_repay=ar)
                if kind == "limit":
                    return await e.create_limit_order(opx, p, amt, lim, auto_borrow=ab, auto_repay=ar)
                if kind == "stop":
                    return await e.create_stop_order(opx, p, amt, stp, auto_borrow=ab, auto_repay=ar)
                return await e.create_stop_limit_order(opx, p, amt, stp, lim, auto_borrow=ab, auto_repay=ar)
            name = f"create_{kind}_order({side},{b},{amt},lim={lim},stop={stp},ab={ab},ar={ar})"
            ok, r = await api(name, call)
            # C03: T is the time of the event being handled (for jobs: the clock)
            acc = t_ev if (from_handler and t_ev is not None) else (d.now() if d.now_available else None)
            if invalid and ok:
                V("C07", "invalid-request-accepted", f"{name} was accepted")
            valid = (amt > 0 and amt == q(amt, bp, decimal.ROUND_DOWN) and
                     (kind == "market" or ((kind not in ("limit", "stoplimit") or (lim > 0 and lim == q(lim, qp, decimal.ROUND_DOWN))) and
                                           (kind not in ("stop", "stoplimit") or (stp > 0 and stp == q(stp, qp, decimal.ROUND_DOWN))))))
            if ok:
                ctx.stats["orders_accepted"] += 1
                M["orders"][r.id] = dict(id=r.id, pi=pi, R=R or {}, spent={}, prev=(D(0), D(0), D(0)), kind=kind, side=side,
                                         lim=lim if kind in ("limit", "stoplimit") else None,
                                         stp=stp if kind in ("stop", "stoplimit") else None,
                                         amt=amt, acc=acc, from_handler=from_handler, last=None, cancelled=False,
                                         closed_at_obs=None, nfills=0, ab=ab, ar=ar, open_before_bar=False,
                                         filled_before_bar=D(0), spent_before_bar={}, seqno=len(M["seq"]),
                                         by_job=not from_handler, cancel_by_job=False, job_S=JOB_S.get(), cancel_job_S=None)
                M["seq"].append(r.id)
                ctx.history.append(r.id)
                if not light and R is not None:
                    short = {s: rq - av(bal, s) for s, rq in R.items() if av(bal, s) < rq}
                    if not ab and not borrowed_any:
                        if short:
                            V("C06", "accepted-uncovered", f"{name} accepted with available {[str(av(bal, s)) for s in R]} < reservation {R}")
                        elif any(av(bal, s) == rq for s, rq in R.items()):
                            ctx.probes["accepted_with_exactly_R"] += 1
                    if ab and short:
                        if not lend:
                            V("C10", "borrowed-without-lending", f"{name} accepted although funds were short by {short} and there is no lending strategy")
                        ctx.probes["auto_borrow_loan"] += 1
                        await after_borrow(name, bal)
            else:
                # "without borrowing" = a request that does not borrow: debts the account already has do not matter, since
                # reserving funds cannot change the margin level
                if not light and valid and R is not None and not ab:
                    if all(av(bal, s) >= rq for s, rq in R.items()):
                        if borrowed_any:
                            ctx.probes["covered_request_judged_with_debts"] += 1
                        V("C06", "rejected-although-covered", f"{name} rejected ({r}) although available "
                                                              f"{ {s: str(av(bal, s)) for s in R} } covers the reservation {R}")
                    else:
                        gap = [rq - av(bal, s) for s, rq in R.items() if av(bal, s) < rq]
                        if any(g == unit(prec[s]) for g, s in zip(gap, [s for s, rq in R.items() if av(bal, s) < rq])):
                            ctx.probes["rejected_one_unit_short"] += 1
                if not light and loans_before is not None and ab:
                    try:
                        after_ids = {l.id for l in await e.get_loans()}
                        newl = after_ids - loans_before
                        if newl:
                            M.setdefault("rolled_back_ok", set()).update(newl)
                            ctx.probes["rollback_after_loan_created"] += 1
                            for lid in sorted(newl):
                                li = await e.get_loan(lid)
                                if li.is_open:
                                    V("C11", "rejected-autoborrow-loan-open",
                                      f"{name} was rejected ({r}) but the loan of {li.borrowed_amount} {li.borrowed_symbol} "
                                      f"created for it is still open")
                    except errors.NoPrice:
                        pass
            if not light:
                await observe("after " + name.split("(")[0])

        async def after_borrow(name, bal_before):
            """C10: a loan was just granted; equity must cover the requirement"""
            bal = await e.get_balances()
            eq = F(0)
            used = F(0)
            for s, b_ in bal.items():
                net = b_.available + b_.hold - b_.borrowed
                if net > 0:
                    v = conv(net, s, QUOTE)
                    if v is None:
                        return
                    eq += v
                if b_.borrowed > 0:
                    c = cond_of(s)
                    if c is None:
                        V("C10", "loan-without-conditions", f"{name}: borrowed {s} without lending conditions")
                        return
                    if c.margin_requirement == 0:
                        continue
                    v = conv(b_.borrowed, s, QUOTE)
                    if v is None:
                        V("C10", "granted-without-price", f"{name}: loan in {s} granted although {s} has no price yet")
                        return
                    used += v * F(c.margin_requirement)
            pre_debt = any(b_.borrowed for b_ in bal_before.values())
            if eq < used:
                V("C10", "margin-requirement", f"{name} granted: equity {float(eq)} < requirement {float(used)} "
                                               f"(balances { {s: (str(b_.available + b_.hold), str(b_.borrowed)) for s, b_ in bal.items()} }, "
                                               f"closes { {str(pairs[k]): str(v) for k, v in M['last_close'].items()} })",
                  shape="zero-equity" if eq == 0 else "equity-below-requirement")
            if pre_debt:
                ctx.probes["loan_granted_with_existing_debt"] += 1
            elif used and eq < used * F(101, 100):
                ctx.probes["loan_near_boundary"] += 1

        async def do_cancel(op, from_handler=True):
            which = op["which"]
            oo = await e.get_open_orders()
            known_closed = [i for i, o in M["orders"].items() if o["last"] is not None and not o["last"].is_open]
            if which == "open" and oo:
                oid = oo[op["k"] % len(oo)].id
            elif which == "closed" and known_closed:
                oid = known_closed[op["k"] % len(known_closed)]
            elif which == "unknown":
                oid = "deadbeef" * 4
            else:
                return
            o = M["orders"].get(oid)
            was_open = any(x.id == oid for x in oo)
            info_before = await e.get_order_info(oid) if o is not None else None
            if o is not None and o["ar"] and info_before.amount_filled and was_open:
                await prepare_autorepay_expectation(o, info_before)
            ok, r = await api(f"cancel_order({'open' if was_open else which})", lambda: e.cancel_order(oid))
            if ok:
                ctx.stats["cancels"] += 1
                if not was_open:
                    V("C05", "cancel-closed-succeeded", f"cancel_order on a {which} order returned normally")
                if o is not None:
                    o["cancelled"] = True
                    o["cancel_by_job"] = not from_handler
                    o["cancel_job_S"] = JOB_S.get()
                    if o["ar"] and info_before.amount_filled:
                        mark_autorepay(o)
                        await check_largest_first(o)
            else:
                if was_open:
                    V("C07", "cancel-of-open-order-failed", f"cancel_order of an open order raised {type(r).__name__}: {r}",
                      shape=f"cancel raises {type(r).__name__}: {str(r)[:30]}")
                    if not light:
                        info = await e.get_order_info(oid)
                        if not info.is_open:
                            V("C07", "failed-cancel-closed-order", f"cancel_order raised {r} and the order is closed now",
                              shape=f"cancel raises {type(r).__name__}: {str(r)[:30]}")
            if not light:
                await observe("after cancel")

        def mark_autorepay(o):
            sym = pb[o["pi"]] if o["side"] == "buy" else pq[o["pi"]]
            for meta in M["loans"].values():
                if meta["sym"] == sym and not meta["closed"]:
                    meta["explained"] = True      # may be closed by this auto-repay order

        async def prepare_autorepay_expectation(o, info):
            """exact replay of the repayment loop for the cancel path (C11 largest first)"""
            M["lf"] = None
            if light or not lend:
                return
            sym = pb[o["pi"]] if o["side"] == "buy" else pq[o["pi"]]
            try:
                ol = [l for l in await e.get_loans(is_open=True) if l.borrowed_symbol == sym]
            except errors.NoPrice:
                return
            if len(ol) < 1:
                return
            bal = await e.get_balances()
            avail = {s: b_.available for s, b_ in bal.items()}
            for s, r in o["R"].items():
                avail[s] = avail.get(s, D(0)) + max(D(0), r - o["spent"].get(s, D(0)))
            # margin level before (model): only when >= 100% the margin rule cannot veto a repayment
            eq = F(0)
            used = F(0)
            okp = True
            for s, b_ in bal.items():
                net = b_.available + b_.hold - b_.borrowed
                if net > 0:
                    v = conv(net, s, QUOTE)
                    okp = okp and v is not None
                    eq += v or 0
                if b_.borrowed > 0:
                    v = conv(b_.borrowed, s, QUOTE)
                    c = cond_of(s)
                    okp = okp and v is not None and c is not None
                    used += (v or 0) * F(c.margin_requirement if c else 0)
            try:
                allopen = await e.get_loans(is_open=True)
            except errors.NoPrice:
                return
            interest = F(0)
            for l in allopen:
                for s, v in l.outstanding_interest.items():
                    cv = conv(v, s, QUOTE)
                    okp = okp and cv is not None
                    interest += cv or 0
            if not okp or eq < used + interest:
                return
            M["lf"] = dict(sym=sym, loans=[(l.id, l.borrowed_amount, dict(l.outstanding_interest)) for l in ol], avail=avail)
            if len(ol) >= 2:
                ctx.probes["autorepay_with_2_loans"] += 1

        async def check_largest_first(o):
            lf = M.get("lf")
            M["lf"] = None
            if not lf:
                return
            cand = sorted(lf["loans"], key=lambda x: x[1], reverse=True)     # stable, like the statement
            avail = dict(lf["avail"])
            expect = set()
            for lid, amt, intr in cand:
                cost = collections.defaultdict(D)
                cost[lf["sym"]] += amt
                for s, v in intr.items():
                    cost[s] += v
                if all(avail.get(s, D(0)) >= v for s, v in cost.items()):
                    expect.add(lid)
                    for s, v in cost.items():
                        avail[s] = avail.get(s, D(0)) - v
            got = set()
            for lid, amt, intr in cand:
                li = await e.get_loan(lid)
                if not li.is_open:
                    got.add(lid)
            if got != expect:
                # ties in principal may be taken in either order: accept any maximal greedy outcome over tie permutations
                amts = [a for _, a, _ in cand]
                if len(set(amts)) == len(amts):
                    # why was an affordable loan left open? ask the exchange itself, in the very same state
                    shape = "largest-first"
                    why = ""
                    for lid in [l for l, _, _ in cand if l in expect and l not in got][:1]:
                        if await margin_rule_explains_skip(lid, [(l, a, i_, l in got) for l, a, i_ in cand], lf["sym"]):
                            shape = "margin-veto-of-affordable-repayment"
                            why = "; at its turn the margin rule, counting the loan's own interest as still outstanding, vetoes the repayment"
                            break
                        if got - expect:
                            why = "; a loan with a smaller principal was repaid instead"
                            break
                        try:
                            await e.repay_loan(lid)
                            M["loans"].get(lid, {})["explained"] = True
                            shape = "affordable-loan-skipped"
                            why = "; repaying it right afterwards, in the same state, succeeds"
                        except errors.NotEnoughBalance as x:
                            if "Margin level too low" in str(x):
                                shape = "margin-veto-of-affordable-repayment"
                                why = f"; repaying it right afterwards is vetoed by the margin rule ({x})"
                            else:
                                shape = None          # the funds really are short now: the model's bookkeeping is not exact here
                        except errors.Error:
                            shape = None
                        except Exception as x:
                            if not raised_inside_basana(x):
                                raise
                            why = f"; repaying it right afterwards raises {type(x).__name__}"
                    if shape:
                        V("C11", "largest-first", f"auto-repay order closed by cancel: loans (principal, repaid) "
                                                  f"{[(str(a), l in got) for l, a, _ in cand]}, greedy largest-first with the released "
                                                  f"funds {lf['avail']} repays {[(str(a), l in expect) for l, a, _ in cand]}" + why,
                          shape=shape)
            else:
                ctx.probes["largest_first_checked"] += 1

        async def do_loan(op):
            syms = symbols
            s = op["symname"] if op.get("symname") in symbols else syms[op["sym"] % len(syms)]
            p_ = prec[s]
            ak = op["amt_kind"]
            bal = await e.get_balances()
            if ak == "abs":
                amt = D(op["abs"])
            elif ak == "small":
                amt = q(D(1 + op["amt"] % 200), p_) * unit(min(p_, 1))
            elif ak == "mid":
                amt = q(D(op["amt"] + 1) * 20, p_)
            elif ak == "huge":
                amt = D(1000000)
            elif ak == "zero":
                amt = D(0)
            elif ak == "neg":
                amt = D(-5)
            else:
                # near the margin boundary: borrow about equity / requirement
                eq = F(0)
                for sy, b_ in bal.items():
                    v = conv(b_.available + b_.hold - b_.borrowed, sy, QUOTE)
                    if v is not None and v > 0:
                        eq += v
                c = cond_of(s)
                mr = F(c.margin_requirement) if c is not None else F(1)
                v1 = conv(D(1), s, QUOTE)
                if mr > 0 and v1:
                    x = eq / mr / v1 * F(990 + op["amt"] % 21, 1000)
                    amt = q(D(x.numerator) / D(x.denominator), p_, decimal.ROUND_DOWN)
                else:
                    amt = q(D(op["amt"] + 1), p_)
            amt = q(amt, p_, decimal.ROUND_DOWN) if amt > 0 else amt
            if p_ == 18 and amt > 0:
                amt = min(amt, D(10) ** 5) + D((op["amt"] + 3) * 998244353 % 10 ** 18).scaleb(-18)
            if ak == "offgrid" or (scn.get("offgrid_loans") and amt > 0 and op["amt"] % 3 == 0):
                # legal: basana does not validate loan amounts against the symbol precision. From here on the account may
                # hold sub-precision amounts, so the clauses conditioned on on-grid loan amounts (C08 dust) are off.
                amt = amt + unit(p_ + 1) * (1 + op["amt"] % 9)
                M["offgrid"] = True
                ctx.probes["offgrid_loan"] += 1
            name = f"create_loan({s},{amt})"
            ok, r = await api(name, lambda: e.create_loan(s, amt))
            if ok:
                ctx.stats["loans_granted"] += 1
                if not lend:
                    V("C10", "borrowed-without-lending", f"{name} granted without a lending strategy")
                if amt <= 0:
                    V("C07", "invalid-request-accepted", f"{name} granted")
                M["loans"][r.id] = dict(created=d.now(), sym=s, amt=amt, seen_open=True, closed=False, last_int=None)
                if not light:
                    await after_borrow(name, bal)
            else:
                ctx.stats["loans_refused"] += 1
            if not light:
                await observe("after create_loan")

        async def do_repay(op):
            which = op["which"]
            try:
                ol = await e.get_loans(is_open=True)
            except errors.NoPrice:
                return
            cl = await e.get_loans(is_open=False)
            if which == "open" and ol:
                l = ol[op["k"] % len(ol)]
            elif which == "closed" and cl:
                l = cl[op["k"] % len(cl)]
            elif which == "unknown":
                l = None
            else:
                return
            lid = l.id if l is not None else "feedface" * 4
            before = await e.get_balances()
            if l is not None and l.is_open and lid in M["loans"]:
                M["loans"][lid]["explained"] = True
            ok, r = await api(f"repay_loan({which})", lambda: e.repay_loan(lid))
            if ok:
                ctx.stats["loans_repaid"] += 1
                if l is None or not l.is_open:
                    V("C11", "repaid-closed-or-unknown", f"repay_loan on a {which} loan returned normally")
                elif not light:
                    after = await e.get_balances()
                    li = await e.get_loan(lid)
                    want_paid = {k: v for k, v in l.outstanding_interest.items() if v}
                    if li.is_open or dict(li.paid_interest) != want_paid:
                        V("C11", "repay-paid-interest", f"after repay: is_open={li.is_open} paid {dict(li.paid_interest)} vs outstanding before {want_paid}")
                    expd = collections.defaultdict(D)
                    expd[l.borrowed_symbol] -= l.borrowed_amount
                    for s_, v in l.outstanding_interest.items():
                        expd[s_] -= v
                    for s_ in set(before) | set(after) | set(expd):
                        g0 = (before[s_].available + before[s_].hold) if s_ in before else D(0)
                        g1 = (after[s_].available + after[s_].hold) if s_ in after else D(0)
                        if g1 - g0 != expd.get(s_, D(0)):
                            V("C11", "repay-delta", f"{s_}: balance changed by {g1 - g0}, expected {expd.get(s_, D(0))} "
                                                    f"(principal {l.borrowed_amount} {l.borrowed_symbol}, interest {dict(l.outstanding_interest)})")
                        b0 = before[s_].borrowed if s_ in before else D(0)
                        b1 = after[s_].borrowed if s_ in after else D(0)
                        if b1 - b0 != (-l.borrowed_amount if s_ == l.borrowed_symbol else 0):
                            V("C11", "repay-borrowed-delta", f"{s_}: borrowed changed by {b1 - b0}")
                    ok2, _ = await api("repay_loan(again)", lambda: e.repay_loan(lid))
                    if ok2:
                        V("C11", "repaid-twice", "second repay_loan of the same loan returned normally")
            else:
                if l is not None and l.is_open and lid in M["loans"]:
                    M["loans"][lid]["explained"] = False
                    # refused for lack of funds: the account must really be short (C02 refusal clause)
                    ctx.probes["repay_refused"] += 1
            if not light:
                await observe("after repay")

        async def run_ops(ops, pi_ctx, from_handler, t_ev=None):
            M["in_handler"] += 1
            try:
                for op in ops:
                    if not scn["nosusp"]:
                        for _ in range(op["yields"]):
                            await asyncio.sleep(0)
                            ctx.faults["handler_yield"] += 1
                        if op["sleep"]:
                            await asyncio.sleep(0.5 * op["sleep"])
                            ctx.faults["handler_timed_suspension"] += 1
                    k = op["kind"]
                    if k == "order":
                        await do_order(op, pi_ctx, from_handler, t_ev=t_ev)
                    elif k == "edge":
                        # probe pair on the same state: one unit above the boundary first, then the boundary itself
                        if op["delta"] == 0:
                            op2 = dict(op, delta=1)
                            await do_order(op2, pi_ctx, from_handler, edge=True, t_ev=t_ev)
                        await do_order(op, pi_ctx, from_handler, edge=True, t_ev=t_ev)
                    elif k == "invalid":
                        await do_order(op, pi_ctx, from_handler, invalid=True, t_ev=t_ev)
                    elif k == "cancel":
                        await do_cancel(op, from_handler)
                    elif k == "loan":
                        await do_loan(op)
                    elif k == "repay":
                        await do_repay(op)
                    elif k == "recond":
                        # MarginLoans.set_conditions may be called at any time: the requirement for a symbol is raised;
                        # from then on it applies to everything borrowed in that symbol (interest terms stay as they are)
                        sym_ = symbols[op["sym"] % len(symbols)]
                        c_old = cond_of(sym_) if lend else None
                        if c_old is not None:
                            c_new = lending.MarginLoanConditions(
                                interest_symbol=c_old.interest_symbol, interest_percentage=c_old.interest_percentage,
                                interest_period=c_old.interest_period, min_interest=c_old.min_interest,
                                margin_requirement=c_old.margin_requirement + D(op["add"]))
                            ls.set_conditions(sym_, c_new)
                            conds[sym_] = c_new
                            M["dirty"] = True
                            ctx.probes["margin_requirement_raised"] += 1
                            ctx.trace.append((f"set_conditions({sym_},{c_new.margin_requirement})", "ok"))
                    elif k == "reprec":
                        # set_symbol_precision may be called at any time; here a precision only ever gets finer
                        sym_ = symbols[op["sym"] % len(symbols)]
                        newp = min(8, prec[sym_] + op["by"])
                        if newp != prec[sym_] and prec[sym_] != 18:
                            e.set_symbol_precision(sym_, newp)
                            prec[sym_] = newp
                            M["dirty"] = True
                            M["prec_changed"] = True
                            ctx.probes["precision_made_finer"] += 1
                            ctx.trace.append((f"set_symbol_precision({sym_},{newp})", "ok"))
            finally:
                M["in_handler"] -= 1

        # ------------------------------------------------------------ handlers
        async def guarded(coro):
            try:
                await coro
            except (SimDeadlock, SimLimit):
                raise
            except errors.NoPrice:
                ctx.stats["noprice_in_harness"] += 1
            except Exception as x:      # a harness bug must not vanish inside the dispatcher
                import traceback
                ctx.harness_error = traceback.format_exc()

        def before_bar(pi):
            for i in M["seq"]:
                o = M["orders"][i]
                if o["pi"] == pi:
                    last = o["last"]
                    o["open_before_bar"] = (last is None) or last.is_open
                    o["filled_before_bar"] = o["prev"][0]
                    o["spent_before_bar"] = dict(o["spent"])
            M["bal_before_bar"] = M.get("prev_bal")

        async def obs_bar(ev):
            # runs right after the exchange processed exactly this bar
            pi = ev._pi
            M["dirty"] = True
            # the exchange's processing of this bar was cut short by the faulty plugin: what it had not reached yet (the
            # other orders of the pair, forwarding the bar) did not happen; only the progress clauses are waived for it
            M["bar_aborted"] = flaky["raised"]
            flaky["raised"] = False
            if M["bar_aborted"]:
                ctx.probes["bar_processing_aborted_by_plugin"] += 1
            before_bar(pi)
            M["pair_bars_seen"][pi].append((ev.when, ev.bar))
            # auto-repay orders that traded in this bar may have closed loans
            M["last_close"][pi] = ev.bar.close
            if not light:
                await guarded(observe(f"bar {pairs[pi]} {ev.when.time()}", bar_ev=ev))
                for i in M["seq"]:
                    M["orders"][i]["open_before_bar"] = False

        async def pre(ev):
            if not light:
                await guarded(observe("pre " + type(ev).__name__))

        async def post(ev):
            if not light:
                await guarded(observe("post " + type(ev).__name__))

        async def on_bar(ev):
            ops = scn["scripts"].get(f"bar:{ev._pi}:{ev._bi}")
            if scn["sig_every"] and ev._pi == 0 and ev._bi >= 0 and ev._bi % scn["sig_every"] == 0:
                sig_src.push(ts.TradingSignal(ev.when, bs.Position.LONG, ev.bar.pair))
            if ops:
                await guarded(run_ops(ops, ev._pi, True, ev.when))

        oe_count = [0]

        async def on_order(ev):
            oe_count[0] += 1
            # an order event produced by a scheduled job (or by a handler that itself descends from one) precedes
            # the bars of its own timestamp, like the job: orders placed while handling it are judged like a job's
            rec = M["orders"].get(ev.order.id)
            idx = len(M["oe"][ev.order.id])
            # - provided the event carries the job's own scheduled time: a job scheduled strictly between two bars acts at
            # that time, and what it causes must not be stamped with (and then filled by) the bar that follows
            tainted = rec is not None and ((idx == 0 and rec["by_job"] and rec["job_S"] == ev.when) or
                                           (not ev.order.is_open and rec["cancel_by_job"] and rec["cancelled"]
                                            and rec["cancel_job_S"] == ev.when))
            if tainted:
                JOB_S.set(ev.when)
            M["oe"][ev.order.id].append((ev.when, ev.order, d.now()))
            ctx.trace.append(("oe", ev.when.isoformat(), str(ev.order.amount_filled), str(ev.order.quote_amount_filled),
                              str(sorted(ev.order.fees.items())), ev.order.is_open))
            if scn["oe_every"] and scn["oe_ops"] and oe_count[0] % scn["oe_every"] == 0 and oe_count[0] < 400:
                await guarded(run_ops(scn["oe_ops"][:1 + oe_count[0] % len(scn["oe_ops"])], None, not tainted, ev.when))

        async def on_signal(ev):
            if scn["sig_ops"]:
                await guarded(run_ops(scn["sig_ops"], 0, True, ev.when))

        if scn.get("merged") and npairs > 1:
            # one bar source carrying several pairs (several events with the same datetime from one source)
            allb = sorted((ev for evs in bar_list for ev in evs), key=lambda ev: (ev.when, ev._pi))
            sources = [event.FifoQueueEventSource(events=allb)]
            ctx.probes["merged_bar_source"] += 1
        else:
            sources = [event.FifoQueueEventSource(events=evs) for evs in bar_list]
        if coarse_evs:
            sources.append(event.FifoQueueEventSource(events=coarse_evs))
        if scn["sub_first"]:
            for p in pairs:
                e.subscribe_to_bar_events(p, on_bar)
            # (the order in which sources get known to the dispatcher decides who goes first among same-time events)
            e.subscribe_to_order_events(on_order)
        for src in sources:
            e.add_bar_source(src)
            d.subscribe(src, obs_bar)
        if not scn["sub_first"]:
            for p in pairs:
                e.subscribe_to_bar_events(p, on_bar)
            e.subscribe_to_order_events(on_order)
        sig_src = ts.TradingSignalSource(d)
        sig_src.subscribe_to_trading_signals(on_signal)
        d.subscribe_all(pre, front_run=True)
        d.subscribe_all(post)
        for j in scn["jobs"]:
            async def job(j=j):
                JOB_S.set(tmin(min(j["at"], last_k)))
                await guarded(run_ops(j["ops"], None, False))
            # not after the last bar: operations in the final flush of jobs happen after the last event was handled,
            # when no subscriber can be told about them any more
            d.schedule(tmin(min(j["at"], last_k)), job)
        wt = asyncio.ensure_future(watcher()) if watch is not None else None
        try:
            await d.run(stop_signals=[])
            ctx.outcome = "returned"
        except (Exception, asyncio.CancelledError) as x:
            ctx.outcome = f"raised {type(x).__name__}: {x}"
        finally:
            if wt is not None:
                wt.cancel()
        # ------------------------------------------------------------ end of run
        if ctx.outcome == "returned":
            await guarded(observe("end"))
        # canonical history for the differential
        hist = []
        for oid in ctx.history:
            o = M["orders"][oid]
            evs = M["oe"].get(oid, [])
            hist.append((o["kind"], o["side"], o["pi"], str(o["amt"]), str(o["lim"]), str(o["stp"]),
                         [(w.isoformat(), str(i.amount_filled), str(i.quote_amount_filled), str(sorted(i.fees.items())),
                           i.is_open) for (w, i, _) in evs]))
        bal = await e.get_balances()
        ctx.final = (hist, sorted((s, str(b.available), str(b.hold), str(b.borrowed)) for s, b in bal.items()
                                  if b.available or b.hold or b.borrowed))
        if not light and ctx.outcome == "returned":
            check_order_events(M, await e.get_orders())
            if M.get("never_open"):
                bad = M["never_open"] - M.get("rolled_back_ok", set())
                if bad:
                    V("C11", "loan-never-open", f"{len(bad)} closed loans that were never observed open and do not stem from a rejected auto-borrow request")
        ctx.M = M
        return loop

    def check_order_events(M, allo):
        V = ctx.V
        final = {oi.id: oi for oi in allo}
        for oid, o in M["orders"].items():
            evs = M["oe"].get(oid, [])
            fin = final.get(oid)
            if not evs:
                V("C05", "order-events", f"no order event for an accepted {o['kind']} order")
                continue
            w0, first, _ = evs[0]
            if not first.is_open or first.amount_filled != 0:
                V("C05", "order-events", f"first event of an order is not its acceptance: {first}")
            nfill_ev = 0
            for (wa, a, na), (wb, b, nb_) in zip(evs, evs[1:]):
                if wb < wa:
                    V("C05", "order-events", f"order events out of time order: {wa} then {wb}")
                if not a.is_open:
                    V("C05", "order-events", "an order event after the closing one")
                if not (b.amount_filled > a.amount_filled or (a.is_open and not b.is_open)):
                    V("C05", "order-events", f"order event repeats its predecessor: {a} -> {b}")
                if b.amount_filled > a.amount_filled:
                    nfill_ev += 1
            if nfill_ev != o["nfills"]:
                V("C05", "order-events", f"{o['nfills']} fills observed but {nfill_ev} fill events delivered")
            last = evs[-1][1]
            if fin is not None:
                a = (last.is_open, last.amount_filled, last.quote_amount_filled, dict(last.fees), set(last.loan_ids))
                b = (fin.is_open, fin.amount_filled, fin.quote_amount_filled, dict(fin.fees), set(fin.loan_ids))
                if a != b:
                    V("C05", "order-events", f"last order event {a} != final order state {b}")
            if o["acc"] is not None and o["from_handler"]:
                for (w, i, n) in evs[1:]:
                    if i.amount_filled > 0 and w <= o["acc"]:
                        V("C03", "look-ahead", f"fill event stamped {w} for an order submitted at {o['acc']}")

    try:
        loop = run_sim(main, salt=ctx.salt, max_steps=3_000_000)
        ctx.vtime = loop.time()
        ctx.steps = loop.steps
    except SimDeadlock:
        ctx.outcome = "deadlock"
        ctx.vtime = ctx.steps = 0
    except SimLimit as x:
        ctx.outcome = f"limit {x}"
        ctx.vtime = ctx.steps = 0
    return ctx


_COMPONENTS = dict(
    real=["basana.core.dispatcher.BacktestingDispatcher", "basana.core.helpers.TaskPool", "basana.backtesting.exchange.Exchange",
          "OrderManager", "LoanManager", "AccountBalances", "orders.{Market,Limit,Stop,StopLimit}Order", "fees", "liquidity",
          "lending.MarginLoans", "Prices", "Config", "TradingSignalSource", "FifoQueueEventSource"],
    simulated=["strategy = scripted clients in bar / order-event / trading-signal handlers and scheduled jobs",
               "generated bar history", "event loop, clock, uuid4", "lender that refuses on a seeded call (MarginLoans subclass)"])

_RULES = {
    "C01": "non-trivial: >=1 fill and >=1 of {fee>0, interest paid, cancel after partial fill, rejected request}",
    "C02": "non-trivial: a fill or repayment refused for lack of funds, or >=2 orders competing in one bar",
    "C03": "non-trivial: >=2 sources sharing a timestamp with more same-time events than pool slots and >=1 fill",
    "C04": "non-trivial: a fill of a non-market order or a partial fill",
    "C05": "non-trivial: orders closed by >=2 different causes in the run",
    "C06": "non-trivial: an order closed while a loan was open, or a boundary probe hit (available == reservation / one unit short)",
    "C07": "non-trivial: a rejected call after an internal state change (loan created then rolled back) or >=3 different rejections",
    "C08": "non-trivial: a bar with >=2 competing orders and the liquidity cap binding",
    "C09": "non-trivial: an order with >=2 fills and a non-zero rounding remainder",
    "C10": "non-trivial: a loan granted with pre-existing debt or a decision within 1% of the boundary",
    "C11": "non-trivial: >=2 open loans in the acquired symbol when an auto-repay order closes, or a repayment with interest > 0",
}


def META(prop):
    return dict(
        engine="exsim", level="exploration", components=_COMPONENTS,
        rule=("seeded backtests: 1-3 pairs, precisions 0..8, fee {none, pct, pct+min}, liquidity {infinite, volume share}, "
              "lending {none, margin loans with per-symbol/default conditions}, 5-40 bars per pair (150-400 in long runs), "
              "shared/distinct/mixed timestamps, OHLC by ranks with gaps and zero/off-grid volumes, max_concurrent in "
              "{1,2,3,#pairs,50}; scripted clients issue 4 order types x buy/sell x auto-borrow/auto-repay, cancels, loans, "
              "repayments, invalid requests and boundary probes from bar/order-event/signal handlers and jobs with scripted "
              "suspensions. " + _RULES[prop] + "; distinct by hash of (config class, op-kind sequence, outcome sequence)."),
        assumptions=["observations use the public API only (get_balances/get_orders/get_open_orders/get_order_info/get_loans, order and bar events)",
                     "the harness computes in exact rationals / an 80-digit decimal context; generated amounts are capped at 1e9",
                     "initial balances are non-negative; loan amounts and initial balances are on the precision grid except in "
                     "the runs that deliberately use off-grid ones (the grid-conditioned dust clause of C08 is off there)",
                     "a violation is reported for the property whose check is running; the same run evaluates every exchange "
                     "oracle"],
        probes_expected={
            "C01": ["partial_fill", "close_cancelled", "auto_borrow_loan", "offgrid_loan"],
            "C02": ["repay_refused", "competing_orders_in_bar", "auto_borrow_loan"],
            "C03": ["partial_fill"],
            "C04": ["nonmarket_fill", "partial_fill", "progress_checked"],
            "C05": ["close_filled", "close_cancelled", "close_fok"],
            "C06": ["accepted_with_exactly_R", "rejected_one_unit_short", "close_with_loan_open"],
            "C07": ["rollback_after_loan_created", "offgrid_loan"],
            "C08": ["competing_orders_in_bar", "liquidity_cap_binding", "fok_for_liquidity"],
            "C09": ["multi_fill_fee_remainder"],
            "C10": ["loan_granted_with_existing_debt", "loan_near_boundary", "lender_reused", "auto_borrow_loan"],
            "C11": ["autorepay_with_2_loans", "largest_first_checked", "repay_refused", "rollback_after_loan_created"],
        }.get(prop, []),
        states_measure="distinct (#open orders, #open loans, handlers in flight) triples at observation points",
    )


def _nontrivial(prop, ctx):
    p = ctx.probes
    s = ctx.stats
    if prop == "C01":
        return s["fills"] > 0 and (s["rejected_calls"] > 0 or s["loans_repaid"] > 0 or p["partial_fill"] > 0)
    if prop == "C02":
        return p["repay_refused"] > 0 or p["competing_orders_in_bar"] > 0 or s["rejected_calls"] > 0 and s["fills"] > 0
    if prop == "C04":
        return p["nonmarket_fill"] > 0 or p["partial_fill"] > 0
    if prop == "C05":
        return sum(1 for k in ("close_filled", "close_cancelled", "close_fok") if p[k]) >= 2
    if prop == "C06":
        return p["close_with_loan_open"] > 0 or p["accepted_with_exactly_R"] > 0 or p["rejected_one_unit_short"] > 0
    if prop == "C07":
        return p["rollback_after_loan_created"] > 0 or s["rejected_calls"] >= 3
    if prop == "C08":
        return p["competing_orders_in_bar"] > 0 and p["liquidity_cap_binding"] > 0
    if prop == "C09":
        return p["multi_fill_fee_remainder"] > 0
    if prop == "C10":
        return p["loan_granted_with_existing_debt"] > 0 or p["loan_near_boundary"] > 0 or s["loans_refused"] > 0 and s["loans_granted"] > 0
    if prop == "C11":
        return p["autorepay_with_2_loans"] > 0 or s["loans_repaid"] > 0
    return s["fills"] > 0


JOB_S = contextvars.ContextVar("job_scheduled_time", default=None)


def raised_inside_basana(x):
    """the innermost frame of the exception's traceback is code under test, not this harness"""
    tb = x.__traceback__
    if tb is None:
        return False
    while tb.tb_next is not None:
        tb = tb.tb_next
    return "/basana/" in tb.tb_frame.f_code.co_filename.replace(os.sep, "/")


def run(tape, prop, tier):
    return run_scenario(exgen.build(tape, prop, tier), prop, tier)


def scenario_of(tape, prop, tier):
    return exgen.build(tape, prop, tier)


def simplifications(scn):
    """one-step simplifications of a scenario, most drastic first (structure-aware second stage of the shrinker)"""
    import copy

    def mod(f):
        c = copy.deepcopy(scn)
        f(c)
        return c
    if scn["jobs"]:
        yield mod(lambda c: c.__setitem__("jobs", []))
    if scn["oe_every"]:
        yield mod(lambda c: c.__setitem__("oe_every", 0))
    if scn["sig_every"]:
        yield mod(lambda c: c.__setitem__("sig_every", 0))
    keys = sorted(scn["scripts"], key=lambda k: (int(k.split(":")[2]), int(k.split(":")[1])))
    if len(keys) > 1:
        half = keys[len(keys) // 2:]
        yield mod(lambda c: [c["scripts"].pop(k) for k in half])
        half2 = keys[:len(keys) // 2]
        yield mod(lambda c: [c["scripts"].pop(k) for k in half2])
    if scn.get("cross"):
        def drop_cross(c):
            c["cross"] = False
            last = len(c["bars"]) - 1
            c["bars"].pop()
            for k in [k for k in c["scripts"] if int(k.split(":")[1]) >= last]:
                c["scripts"].pop(k)
        yield mod(drop_cross)
    if scn.get("inv") and not scn.get("cross"):
        def drop_inv(c):
            c["inv"] = None
            c["bars"].pop()
            c["prec"].pop("ZZZ", None)
            c["init"].pop("ZZZ", None)
            if c["lend"]:
                c["lend"]["per_symbol"].pop("ZZZ", None)
                for cd in list(c["lend"]["per_symbol"].values()) + ([c["lend"]["default"]] if c["lend"]["default"] else []):
                    if cd["interest_symbol"] == "ZZZ":
                        cd["interest_symbol"] = "USD"
            for k in [k for k in c["scripts"] if int(k.split(":")[1]) >= len(c["bases"])]:
                c["scripts"].pop(k)
        yield mod(drop_inv)
    n = len(scn["bases"])
    if n > 1 and not scn.get("inv") and not scn.get("cross"):
        def drop_pair(c):
            b = c["bases"].pop()
            c["bars"].pop()
            c["prec"].pop(b, None)
            c["init"].pop(b, None)
            if c["lend"]:
                c["lend"]["per_symbol"].pop(b, None)
                for cd in list(c["lend"]["per_symbol"].values()) + ([c["lend"]["default"]] if c["lend"]["default"] else []):
                    if cd["interest_symbol"] == b:
                        cd["interest_symbol"] = "USD"
            for k in [k for k in c["scripts"] if int(k.split(":")[1]) >= len(c["bases"])]:
                c["scripts"].pop(k)
        yield mod(drop_pair)
    for pi, rows in enumerate(scn["bars"]):
        if len(rows) > 2:
            yield mod(lambda c, pi=pi: c["bars"].__setitem__(pi, c["bars"][pi][:max(2, len(c["bars"][pi]) // 2)]))
    for pi, rows in enumerate(scn["bars"]):
        if len(rows) > 1:
            yield mod(lambda c, pi=pi: c["bars"][pi].pop())
    for k in keys:
        yield mod(lambda c, k=k: c["scripts"].pop(k))
    for k in keys:
        ops = scn["scripts"][k]
        if len(ops) > 1:
            for i in range(len(ops)):
                yield mod(lambda c, k=k, i=i: c["scripts"][k].pop(i))
    for j in range(len(scn["jobs"])):
        yield mod(lambda c, j=j: c["jobs"].pop(j))
    if scn.get("coarse"):
        yield mod(lambda c: c.__setitem__("coarse", False))
    if scn.get("slow"):
        yield mod(lambda c: c.__setitem__("slow", None))
    if scn.get("flaky_fee"):
        yield mod(lambda c: c.__setitem__("flaky_fee", 0))
    if scn.get("subsec"):
        yield mod(lambda c: c.__setitem__("subsec", False))
    if scn["lend"] and scn["lend"].get("refuse_after") is not None:
        yield mod(lambda c: c["lend"].__setitem__("refuse_after", None))
    if scn["lend"]:
        yield mod(lambda c: c.__setitem__("lend", None))
    if scn["fee"]["kind"] != "none":
        yield mod(lambda c: c["fee"].__setitem__("kind", "none"))
    if scn["liq"]["kind"] != "inf":
        yield mod(lambda c: c["liq"].__setitem__("kind", "inf"))
    if scn["maxc"] != 50:
        yield mod(lambda c: c.__setitem__("maxc", 50))
    if scn["sub_first"]:
        yield mod(lambda c: c.__setitem__("sub_first", False))
    for k in keys:
        for i, op in enumerate(scn["scripts"][k]):
            if op["yields"] or op["sleep"]:
                yield mod(lambda c, k=k, i=i: c["scripts"][k][i].update(yields=0, sleep=0))


def run_scenario(scn, prop, tier):
    res = Result()
    ctx = _execute(Ctx(scn, prop))
    herr = getattr(ctx, "harness_error", None)
    if herr:
        raise RuntimeError("harness error inside a handler:\n" + herr)
    if ctx.outcome != "returned":
        for p_ in ("C12", "C14", prop):
            res.viol(p_, "backtest-did-not-end", "backtest-did-not-end", f"run(): {ctx.outcome}")
    for p_, (clause, shape, msg) in ctx.viol.items():
        res.viol(p_, clause, shape, msg + f" [max_concurrent={ctx.maxc}]")
    res.stats = ctx.stats
    res.probes = ctx.probes
    res.faults = ctx.faults
    res.states = ctx.states
    res.vtime = ctx.vtime
    res.steps = ctx.steps
    res.nontrivial = _nontrivial(prop, ctx)
    kinds = tuple(t[0].split("(")[0] + ":" + t[1] for t in ctx.trace if t[0] != "oe")
    res.sig = digest_of((scn["fee"]["kind"], scn["liq"]["kind"], bool(scn["lend"]), len(scn["bases"]), kinds))
    res.digest = digest_of((ctx.trace, ctx.final, ctx.outcome))
    res.scenario = scn
    res.sample = dict(config={k: scn[k] for k in ("bases", "prec", "fee", "liq", "lend", "init", "maxc", "sub_first", "ts_mode")},
                      bars_per_pair=[len(b) for b in scn["bars"]], first_bars=[b[:3] for b in scn["bars"]],
                      ops=[t[0] + " -> " + t[1] for t in ctx.trace if t[0] != "oe"][:25])
    return res
