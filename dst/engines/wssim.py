"""C18 - websocket channels stay subscribed across faults and route correctly.

Real code: basana.core.websockets.WebSocketClient (main loop, back-off, subscribe loop, reconnect), the Binance
WebSocketClient / WebsocketManager / Exchange with spot, cross and isolated user-data channels (listen keys over REST,
keep-alive jobs through the realtime dispatcher's scheduler), the Bitstamp public and private clients (token over
REST), RealtimeDispatcher, and the aiohttp client stack (HTTP upgrade, websocket reader/writer, heartbeat).
Simulated: the exchanges (aiohttp server protocol on SimTransport) and their misbehaviour, SimNet, clocks.
"""
import asyncio
import collections
import json
import random

from ..loop import run_sim, SimDeadlock, SimLimit
from ..net import SimNet, SimConnector
from ..runner import Result, digest_of

PROP = "C18"
S = 6.0            # settle window: every injected latency is <= 1.5 s
HB = 5.0           # websocket heartbeat used in the runs

META = dict(
    engine="wssim", level="exploration",
    rule=("flavour in {generic subclass of core WebSocketClient, Binance Exchange + WebsocketManager with trade channels and "
          "spot / cross / isolated user-data channels, Bitstamp public, Bitstamp private}; 1-3 channels registered before the "
          "run and 0-2 while connected; a seeded sequence of 0-6 peer faults {orderly close 1000/1001, close 1011, abrupt "
          "reset, half-open stall, non-JSON text, JSON that is not an object, binary frame, message for an unknown channel, "
          "subscription error reply, refused connects, slow replies, bts:request_reconnect, listenKeyExpired, failing "
          "listen-key creation, failing keep-alive} at seeded instants; back-off in {0.5,1,3} s. Non-trivial: >=2 different "
          "fault kinds and a registration while connected. Distinct by (flavour, fault kind sequence, registration pattern)."),
    components=dict(real=["basana.core.websockets.WebSocketClient", "basana.external.binance.websockets.WebSocketClient",
                          "binance.websocket_mgr.WebsocketManager", "binance.exchange.Exchange", "binance spot/cross/isolated UserDataChannel",
                          "binance.client.APIClient", "basana.external.bitstamp.websockets.{Public,Private}WebSocketClient",
                          "bitstamp.client.APIClient", "RealtimeDispatcher", "aiohttp client (HTTP upgrade, websocket frames, heartbeat)"],
                    simulated=["fake Binance / Bitstamp / generic peers (aiohttp.web.Server on SimTransport)", "SimNet faults",
                               "wall clock and loop clock"]),
    assumptions=["oracles are silent while faults still flow: convergence is demanded only of connections that stay healthy for "
                 f"the settle window S={S} s (all injected latencies are <= 1.5 s) and after the last fault",
                 "the fake peers implement the parts of the protocols the clients use, as reflected in the clients and their test fixtures",
                 "clock granularity: back-off gaps are compared with 1e-5 s tolerance"],
    probes_expected=["registration_while_connected", "reconnect_after_fault", "key_expired_on_healthy_conn", "stall_detected",
                     "listen_key_creation_failed", "two_fault_kinds", "keepalive_seen", "garbage_frame"],
    states_measure="distinct (live connections, subscribed channels, pending faults) triples at fault instants",
)

FAULTS_COMMON = ["close_ok", "close_away", "close_err", "reset", "stall", "garbage_text", "json_list", "binary",
                 "unknown_channel", "sub_error", "refuse", "slow_reply"]


def run(tape, prop, tier):
    res = Result()
    flavour = tape.choice(["generic", "binance", "bitstamp_pub", "bitstamp_priv", "binance", "bitstamp_exchange"])
    backoff = tape.choice([1.0, 0.5, 3.0])
    n_init = 1 + tape.draw(3)
    n_later = tape.draw(3)
    later_at = sorted(tape.int(2, 40) for _ in range(n_later))
    kinds = list(FAULTS_COMMON)
    if flavour == "binance":
        kinds += ["key_expired", "key_expired", "listen_key_fail", "keepalive_fail", "keepalive_reset"]
    if flavour.startswith("bitstamp"):
        kinds += ["reconnect_request", "reconnect_request"]
    if flavour in ("bitstamp_priv", "bitstamp_exchange"):
        kinds += ["token_fail"]
    nf = tape.draw(7)
    faults = sorted((tape.int(30, 600) / 10.0, tape.choice(kinds)) for _ in range(nf))
    ka_period = 20.0
    net_seed = tape.subseed()
    salt = tape.draw(1000)
    # which channels: binance -> trade channels + user data kinds
    if flavour == "binance":
        pool = ["trade:BTCUSDT", "ud:spot", "trade:ETHUSDT", "ud:cross", "ud:iso", "trade:BNBUSDT"]
    elif flavour == "bitstamp_exchange":
        # through the Exchange API: one public and one private websocket client in the same run
        pool = ["live_trades_btcusd", "private-my_orders_btcusd", "order_book_btcusd", "private-my_trades_btcusd",
                "live_orders_btcusd", "live_trades_ethusd"]
    elif flavour == "bitstamp_priv":
        pool = ["private-my_orders_btcusd", "private-my_trades_btcusd", "private-my_orders_ethusd", "private-my_trades_ethusd",
                "private-my_orders_xrpusd"]
    elif flavour == "bitstamp_pub":
        pool = ["live_trades_btcusd", "order_book_btcusd", "live_orders_btcusd", "live_trades_ethusd", "order_book_ethusd"]
    else:
        # basana keeps pending channels in a set of str: varying the names varies the order in which they are subscribed
        sfx = tape.draw(1000)
        pool = [f"{n}{sfx}" for n in ["alpha", "beta", "gamma", "delta", "epsilon"]]
    order = list(range(len(pool)))
    for i in range(len(order) - 1):
        j = i + tape.draw(len(order) - i)
        order[i], order[j] = order[j], order[i]
    if flavour == "bitstamp_exchange":
        n_init, n_later, later_at = n_init + n_later, 0, []        # the Exchange API registers before the run only
    chans = [pool[i] for i in order][:n_init + n_later]
    init_ch = chans[:n_init]
    # a client that follows a few hundred markets (one SUBSCRIBE request carries them all)
    many = (200 + tape.draw(150)) if (flavour == "binance" and tape.chance(0.06)) else 0
    if many:
        init_ch = init_ch + [f"trade:S{k:03d}USDT" for k in range(many)]
    later_ch = list(zip(later_at, chans[n_init:]))
    t_last_fault = max([t for t, _ in faults] + [t for t, _ in later_ch] + [0.0])
    t_end = t_last_fault + 1.5 * HB + 3.0 + backoff + 2 * S + 6.0
    res.sample = dict(flavour=flavour, backoff=backoff, initial_channels=init_ch, later=later_ch, faults=faults,
                      keep_alive_period=ka_period if flavour == "binance" else None, run_until=t_end)

    L = dict(conns=[], subs=[], regs=[], keys=[], puts=[], tokens=[], sent=collections.defaultdict(set),
             got=collections.defaultdict(list), fault_log=[], errors=[], final=None)
    out = {}

    async def main(loop):
        import aiohttp
        from aiohttp import web
        import basana as bs
        from basana.core import websockets as core_ws, event, dt as bdt
        rng = random.Random(net_seed)
        flags = dict(sub_error=0, slow=0.0, key_fail=0, ka_fail=0, token_fail=0, ka_reset=0)
        msg_id = [0]

        # ------------------------------------------------------------ the peer
        def chan_of_stream(stream):
            """name under which the channel was registered, for a name seen on the wire"""
            if flavour == "binance":
                for (t, kind, key) in L["keys"]:
                    if key == stream:
                        return "ud:" + kind
                if stream.endswith("@trade"):
                    return "trade:" + stream[:-6].upper()
                return None
            if flavour in ("bitstamp_priv", "bitstamp_exchange") and stream.endswith("-777"):
                return stream[:-4]
            return stream

        async def rest(request):
            body = (await request.read()).decode()
            if flags["slow"]:
                await asyncio.sleep(flags["slow"])
            p = request.path
            if p in ("/api/v3/userDataStream", "/sapi/v1/userDataStream", "/sapi/v1/userDataStream/isolated"):
                kind = {"/api/v3/userDataStream": "spot", "/sapi/v1/userDataStream": "cross"}.get(p, "iso")
                if request.method == "POST":
                    if flags["key_fail"] > 0:
                        flags["key_fail"] -= 1
                        res.probes["listen_key_creation_failed"] += 1
                        return web.json_response({"code": -1000, "msg": "try later"}, status=500)
                    k = f"lk{len(L['keys']) + 1}{kind}"
                    L["keys"].append((loop.time(), kind, k))
                    return web.json_response({"listenKey": k})
                if request.method == "PUT":
                    L["puts"].append((loop.time(), kind, body))
                    if flags["ka_reset"] > 0:
                        # transport-level failure of the keep-alive: the REST connection dies instead of answering
                        # (twice in a row, since aiohttp re-sends an idempotent request once on a reused connection)
                        flags["ka_reset"] -= 1
                        res.probes["keepalive_connection_reset"] += 1
                        request.transport.conn.reset()
                        return web.Response(status=500)
                    if flags["ka_fail"] > 0:
                        flags["ka_fail"] -= 1
                        return web.json_response({"code": -1125, "msg": "This listenKey does not exist."}, status=400)
                    return web.json_response({})
            if p == "/api/v2/websockets_token/":
                if flags["token_fail"] > 0:
                    flags["token_fail"] -= 1
                    return web.json_response({"status": "error", "reason": "nope"}, status=403)
                L["tokens"].append(loop.time())
                return web.json_response({"token": f"tok{len(L['tokens'])}", "user_id": 777})
            return web.json_response({"code": -1, "msg": "unknown"}, status=404)

        async def wsh(request):
            ws = web.WebSocketResponse()
            await ws.prepare(request)
            c = dict(id=len(L["conns"]) + 1, ws=ws, t_open=loop.time(), subs={}, conn=request.transport.conn,
                     t_bad=None, closed_at=None, client=getattr(request.transport.conn, "client", None))
            L["conns"].append(c)
            pump = asyncio.ensure_future(pumper(c))
            try:
                async for msg in ws:
                    if msg.type != aiohttp.WSMsgType.TEXT:
                        continue
                    m = json.loads(msg.data)
                    names = []
                    if flavour == "binance" and m.get("method") == "SUBSCRIBE":
                        names = list(m["params"])
                        reply = {"result": None, "id": m["id"]}
                    elif flavour.startswith("bitstamp") and m.get("event") == "bts:subscribe":
                        names = [m["data"]["channel"]]
                        reply = {"event": "bts:subscription_succeeded", "channel": names[0], "data": {}}
                        private = flavour == "bitstamp_priv" or (flavour == "bitstamp_exchange" and names[0].startswith("private-"))
                        if private and not str(m["data"].get("auth", "")).startswith("tok"):
                            L["errors"].append(f"private subscription without a token: {m}")
                        if private and not names[0].endswith("-777"):
                            L["errors"].append(f"private subscription without the user id in the channel name: {m}")
                    elif flavour == "generic" and m.get("op") == "sub":
                        names = list(m["channels"])
                        reply = {"op": "ack"}
                    else:
                        continue
                    L["subs"].append((loop.time(), c["id"], names))
                    if flags["sub_error"] > 0:
                        # an error reply (think "already subscribed"): the error path of the client runs, the stream flows
                        flags["sub_error"] -= 1
                        reply = ({"result": {"code": 2, "msg": "bad"}, "id": m.get("id")} if flavour == "binance" else
                                 {"event": "bts:subscription_failed", "channel": names[0], "data": {}} if flavour.startswith("bitstamp")
                                 else {"op": "error"})
                    for n in names:
                        c["subs"][n] = loop.time()

                    async def send_reply(reply=reply, delay=flags["slow"]):
                        if delay:
                            await asyncio.sleep(delay)
                        if not ws.closed:
                            try:
                                await ws.send_str(json.dumps(reply))
                            except Exception:
                                pass
                    asyncio.ensure_future(send_reply())
            except Exception:
                pass
            finally:
                pump.cancel()
                c["closed_at"] = loop.time()
                if c["t_bad"] is None:
                    c["t_bad"] = loop.time()
            return ws

        async def pumper(c):
            while True:
                await asyncio.sleep(0.4 + rng.random() * 0.6)
                if c["ws"].closed or c["conn"].stalled:
                    return
                names = list(c["subs"])
                if len(names) > 12:
                    names = rng.sample(sorted(names), 6)        # keep the traffic of a many-channel run small
                for name in names:
                    reg = chan_of_stream(name)
                    if reg is None:
                        continue
                    msg_id[0] += 1
                    n = msg_id[0]
                    L["sent"][reg].add(n)
                    try:
                        await c["ws"].send_str(json.dumps(channel_message(name, n)))
                    except Exception:
                        return

        def channel_message(name, n):
            ts = int(loop.wall() * 1000)
            if flavour == "binance":
                if name.endswith("@trade"):
                    return {"stream": name, "data": {"e": "trade", "E": ts, "s": name[:-6].upper(), "t": n, "p": "1.0", "q": "2.0",
                                                     "b": 1, "a": 2, "T": ts, "m": True, "M": True}}
                return {"stream": name, "data": {"e": "outboundAccountPosition", "E": ts, "u": ts, "uid": n, "B": []}}
            if flavour.startswith("bitstamp"):
                reg = chan_of_stream(name)
                return {"event": "trade" if "trades" in name else "data" if "order_book" in name else "order_created",
                        "channel": reg, "data": {"uid": n, "microtimestamp": str(ts * 1000), "timestamp": str(ts // 1000),
                                                 "bids": [], "asks": [], "id": n, "order_type": 0}}
            return {"ch": name, "id": n}

        async def handler(request):
            if request.headers.get("Upgrade", "").lower() == "websocket":
                return await wsh(request)
            return await rest(request)
        server = web.Server(handler)
        net = SimNet(loop, rng, {"ws.sim": server, "api.sim": server})
        sess = aiohttp.ClientSession(connector=SimConnector(net))
        d = bs.realtime_dispatcher(max_concurrent=10)
        d.idle_sleep = 0.05

        # ------------------------------------------------------------ the client under test
        class SimEvent(event.Event):
            def __init__(self, uid):
                super().__init__(bdt.utc_now())
                self.uid = uid

        class Src(core_ws.ChannelEventSource):
            async def push_from_message(self, message):
                data = message.get("data", message)
                self.push(SimEvent(data.get("uid", message.get("id"))))

        def mk_handler(reg):
            async def h(ev):
                uid = getattr(ev, "uid", None)
                if uid is None and flavour == "bitstamp_exchange":
                    obj = getattr(ev, "order_book", None) or getattr(ev, "trade", None) or getattr(ev, "order", None)
                    uid = obj.json.get("uid")
                if uid is None:
                    js = getattr(ev, "json", None)
                    if js is not None:
                        uid = js.get("uid", ("e", js.get("e")))
                    elif hasattr(ev, "trade"):
                        uid = int(ev.trade.json["t"])
                L["got"][reg].append(uid)
            return h

        cfg = {"api": {"http": {"base_url": "http://api.sim/", "timeout": 30},
                       "websockets": {"base_url": "http://ws.sim/", "heartbeat": HB,
                                      "spot": {"user_data_stream": {"heartbeat": ka_period}},
                                      "cross_margin": {"user_data_stream": {"heartbeat": ka_period}},
                                      "isolated_margin": {"user_data_stream": {"heartbeat": ka_period}}}}}
        late_sources = {}
        if flavour == "generic":
            class Cli(core_ws.WebSocketClient):
                async def subscribe_to_channels(self, channels, ws_cli):
                    await ws_cli.send_str(json.dumps({"op": "sub", "channels": channels}))

                async def handle_message(self, message):
                    if not isinstance(message, dict):
                        return False
                    if message.get("op") == "ack":
                        return True
                    if message.get("op") == "error":
                        await self.on_error(message)
                        return True
                    src = self.get_channel_event_source(message.get("ch", ""))
                    if src is not None:
                        await src.push_from_message(message)
                        return True
                    return False
            cli = Cli("http://ws.sim/feed", session=sess, heartbeat=HB)
            register = cli.set_channel_event_source
        elif flavour == "binance":
            from basana.external.binance import exchange as bex, websockets as bws, user_data, trades as btrades
            from basana.external.binance import spot as bspot, cross_margin as bcross, isolated_margin as biso
            e = bex.Exchange(d, "k", "s", session=sess, config_overrides=cfg)
            cli = None
        elif flavour == "bitstamp_exchange":
            from basana.external.bitstamp import exchange as sex
            e = sex.Exchange(d, "k", "s", session=sess, config_overrides=cfg)
            cli = None
        else:
            from basana.external.bitstamp import websockets as sws
            if flavour == "bitstamp_pub":
                cli = sws.PublicWebSocketClient(session=sess, config_overrides=cfg)
            else:
                cli = sws.PrivateWebSocketClient("k", "s", session=sess, config_overrides=cfg)
            register = cli.set_channel_event_source

        def binance_channel(reg):
            kind, _, arg = reg.partition(":")
            if kind == "trade":
                pair = bs.Pair(arg[:-4], arg[-4:])
                return (bws.PublicChannel(btrades.get_channel(pair)), lambda w: btrades.WebSocketEventSource(pair, w))
            ch = {"spot": bspot.SpotUserDataChannel, "cross": bcross.CrossMarginUserDataChannel}.get(arg)
            if ch is None:
                return (biso.IsolatedMarginUserDataChannel(bs.Pair("BTC", "USDT")), lambda w: user_data.WebSocketEventSource(w))
            return (ch(), lambda w: user_data.WebSocketEventSource(w))

        clients = {}
        if flavour == "bitstamp_exchange":
            pair_of = {"btcusd": bs.Pair("BTC", "USD"), "ethusd": bs.Pair("ETH", "USD")}
            for reg in init_ch:
                pr = pair_of[reg[-6:]]
                h_ = mk_handler(reg)
                if reg.startswith("live_trades"):
                    e.subscribe_to_public_trade_events(pr, h_)
                elif reg.startswith("live_orders"):
                    e.subscribe_to_public_order_events(pr, h_)
                elif reg.startswith("order_book"):
                    e.subscribe_to_order_book_events(pr, h_)
                elif reg.startswith("private-my_orders"):
                    e.subscribe_to_private_order_events(pr, h_)
                else:
                    e.subscribe_to_private_trade_events(pr, h_)
                who = "priv" if reg.startswith("private-") else "pub"
                L["regs"].append((0.0, reg, who))
                clients[who] = e._get_priv_ws_client() if who == "priv" else e._get_pub_ws_client()
            cli = None
        elif flavour == "binance":
            # initial channels through the public Exchange API; this also creates the websocket client
            for reg in init_ch:
                kind, _, arg = reg.partition(":")
                if kind == "trade":
                    e.subscribe_to_trade_events(bs.Pair(arg[:-4], arg[-4:]), mk_handler(reg))
                elif arg == "spot":
                    e.spot_account.subscribe_to_user_data_events(mk_handler(reg))
                elif arg == "cross":
                    e.cross_margin_account.subscribe_to_user_data_events(mk_handler(reg))
                else:
                    e.isolated_margin_account.subscribe_to_user_data_events(bs.Pair("BTC", "USDT"), mk_handler(reg))
                L["regs"].append((0.0, reg, "main"))
            cli = e._ws_mgr._get_ws_client()
            for _, reg in later_ch:
                ch, fac = binance_channel(reg)
                src = fac(cli)
                d.subscribe(src, mk_handler(reg))
                late_sources[reg] = (ch, src)
        else:
            for reg in init_ch:
                src = Src(cli)
                register(reg, src)
                d.subscribe(src, mk_handler(reg))
                L["regs"].append((0.0, reg, "main"))
            for _, reg in later_ch:
                src = Src(cli)
                d.subscribe(src, mk_handler(reg))
                late_sources[reg] = src
        if cli is not None:
            clients["main"] = cli

        async def on_error(err):
            L["errors"].append(repr(err)[:120])

        def tag_main(c_, who):
            orig = c_.main

            async def main_tagged():
                netmod_CLIENT.set(who)
                await orig()
            c_.main = main_tagged
        from ..net import CLIENT as netmod_CLIENT
        for who, c_ in clients.items():
            c_.backoff_secs = backoff
            c_.on_error = on_error
            tag_main(c_, who)

        # ------------------------------------------------------------ the director
        def live():
            return [c for c in L["conns"] if c["closed_at"] is None and not c["ws"].closed and not c["conn"].stalled]

        async def guarded_send(coro):
            # the peer's own connection may be gone already (reset a moment ago): then the fault simply does not land
            try:
                await coro
            except Exception:
                res.stats["fault_on_dead_connection"] += 1

        def mark_bad(c):
            if c["t_bad"] is None:
                c["t_bad"] = loop.time()

        async def director():
            try:
                await director_()
            finally:
                # whatever happened to the script (a send on a connection that was just reset raises), the run ends
                if "t_final" not in L:
                    await asyncio.sleep(max(0.0, t_end - loop.time()))
                    L["final"] = [(c["id"], dict(c["subs"]), c["t_open"]) for c in live()]
                    L["t_final"] = loop.time()
                    d.stop()

        async def director_():
            events_ = sorted([(t, "fault", k) for t, k in faults] + [(float(t), "reg", r) for t, r in later_ch],
                             key=lambda x: (x[0], x[1]))
            for t, what, arg in events_:
                await asyncio.sleep(max(0.0, t - loop.time()))
                lv = live()
                res.states.add(hash((len(lv), sum(len(c["subs"]) for c in lv), what, arg)) & 0xffffffff)
                if what == "reg":
                    if flavour == "binance":
                        ch, src = late_sources[arg]
                        cli.set_channel_event_source_ex(ch, src)
                    else:
                        register(arg, late_sources[arg])
                    L["regs"].append((loop.time(), arg, "main"))
                    if lv:
                        res.probes["registration_while_connected"] += 1
                    continue
                k = arg
                res.faults[k] += 1
                L["fault_log"].append((loop.time(), k, [c["id"] for c in lv]))
                c = lv[-1] if lv else None
                if k == "refuse":
                    net.refuse["ws.sim"] = net.refuse.get("ws.sim", 0) + 2
                    # also drop the current connection so that the refusal is met
                    if c:
                        mark_bad(c)
                        c["conn"].reset()
                elif k == "slow_reply":
                    flags["slow"] = 1.2
                    loop.call_later(8.0, lambda: flags.__setitem__("slow", 0.0))
                    for c_ in lv:
                        mark_bad(c_)          # replies on these connections may come late: no timing demand
                elif k == "sub_error":
                    flags["sub_error"] += 1
                elif k == "listen_key_fail":
                    flags["key_fail"] += 2
                elif k == "keepalive_fail":
                    flags["ka_fail"] += 1
                elif k == "keepalive_reset":
                    flags["ka_reset"] += 2
                elif k == "token_fail":
                    flags["token_fail"] += 1
                elif c is None:
                    continue
                elif k in ("close_ok", "close_away", "close_err"):
                    mark_bad(c)
                    await guarded_send(c["ws"].close(code={"close_ok": 1000, "close_away": 1001, "close_err": 1011}[k]))
                elif k == "reset":
                    mark_bad(c)
                    c["conn"].reset()
                elif k == "stall":
                    mark_bad(c)
                    c["conn"].stall()
                    c["stalled_at"] = loop.time()
                elif k == "garbage_text":
                    mark_bad(c)
                    res.probes["garbage_frame"] += 1
                    await guarded_send(c["ws"].send_str("this is {not json"))
                elif k == "json_list":
                    mark_bad(c)
                    res.probes["garbage_frame"] += 1
                    await guarded_send(c["ws"].send_str("[1, 2, 3]"))
                elif k == "binary":
                    await guarded_send(c["ws"].send_bytes(b"\x00\x01binary"))
                elif k == "unknown_channel":
                    mark_bad(c)
                    m = ({"stream": "nobody@trade", "data": {"e": "trade", "E": 1}} if flavour == "binance" else
                         {"event": "trade", "channel": "nobody", "data": {}} if flavour.startswith("bitstamp") else
                         {"ch": "nobody", "id": -1})
                    await guarded_send(c["ws"].send_str(json.dumps(m)))
                elif k == "reconnect_request":
                    mark_bad(c)
                    await guarded_send(c["ws"].send_str(json.dumps({"event": "bts:request_reconnect", "channel": "", "data": ""})))
                elif k == "key_expired":
                    uds = [n for n in c["subs"] if chan_of_stream(n) and chan_of_stream(n).startswith("ud:")]
                    if uds:
                        n = uds[-1]
                        L.setdefault("expiries", []).append((loop.time(), c["id"], n, chan_of_stream(n)))
                        await guarded_send(c["ws"].send_str(json.dumps({"stream": n, "data": {"e": "listenKeyExpired",
                                                                                             "E": int(loop.wall() * 1000), "listenKey": n}})))
            await asyncio.sleep(max(0.0, t_end - loop.time()))
            # liveness snapshot BEFORE stopping
            L["final"] = [(c["id"], dict(c["subs"]), c["t_open"]) for c in live()]
            L["t_final"] = loop.time()
            d.stop()
        dt_ = asyncio.ensure_future(director())
        try:
            await d.run(stop_signals=[])
            out["o"] = "returned"
        except (Exception, asyncio.CancelledError) as e_:
            out["o"] = f"raised {type(e_).__name__}: {e_}"
        dt_.cancel()
        await sess.close()
        await server.shutdown(0.5)
        out["attempts"] = [(t, o, who) for (t, h, o, who) in net.attempts if h == "ws.sim"]
        return loop

    try:
        loop = run_sim(main, salt=salt, max_steps=3_000_000)
        res.vtime = loop.time()
        res.steps = loop.steps
    except SimDeadlock:
        out["o"] = "deadlock"
    except SimLimit as e_:
        out["o"] = f"limit {e_}"

    def V(clause, msg, shape=None):
        res.viol(PROP, clause, shape or clause, msg + f" [flavour={flavour} backoff={backoff}]")

    if out.get("o") != "returned" or "attempts" not in out:
        V("run-failed", f"dispatcher run: {out.get('o')}")
        res.digest = digest_of((out.get("o"),))
        return res

    def reg_of(name):
        if flavour == "binance":
            for (t, kind, key) in L["keys"]:
                if key == name:
                    return "ud:" + kind
            if name.endswith("@trade"):
                return "trade:" + name[:-6].upper()
            return None
        if flavour in ("bitstamp_priv", "bitstamp_exchange") and name.endswith("-777"):
            return name[:-4]
        return name

    # ---- routing
    for reg, uids in L["got"].items():
        seen = set()
        for u in uids:
            if isinstance(u, tuple):
                continue            # listenKeyExpired notifications are delivered to the stream's own source
            if u not in L["sent"][reg]:
                where = [r for r, s_ in L["sent"].items() if u in s_]
                V("misrouted-event", f"handler of channel {reg} received payload {u}, which the peer sent on {where or 'no channel'}")
                break
            if u in seen:
                V("duplicate-event", f"handler of channel {reg} received payload {u} twice")
                break
            seen.add(u)
    # ---- back-off
    att = out["attempts"]
    for who in sorted({w for _, _, w in att}, key=str):
        mine = [(t, o) for t, o, w in att if w == who]
        for (t1, o1), (t2, o2) in zip(mine, mine[1:]):
            if t2 - t1 < backoff - 1e-5:
                V("backoff", f"connection attempts of client {who} at t={t1:.6f} ({o1}) and t={t2:.6f} ({o2}) are {t2 - t1:.6f} s "
                             f"apart, back-off is {backoff} s")
                break
    # ---- convergence per healthy connection
    regs = L["regs"]
    conns = L["conns"]
    t_final = L.get("t_final", res.vtime)
    for c in conns:
        h = c["t_bad"] if c["t_bad"] is not None else t_final
        subs_here = [(t, names) for (t, cid, names) in L["subs"] if cid == c["id"]]
        for (r, reg, who) in regs:
            if who != c["client"]:
                continue
            deadline = max(c["t_open"], r) + S
            if deadline < h and r < h:
                ok = any(t <= deadline + 1e-9 and any(reg_of(n) == reg for n in names) for (t, names) in subs_here
                         if t >= min(c["t_open"], r))
                if not ok:
                    V("not-subscribed", f"connection #{c['id']} (open {c['t_open']:.2f} .. healthy until {h:.2f}): channel {reg} "
                                        f"registered at {r:.2f} was not subscribed on it within {S} s; subscriptions seen: "
                                        f"{[(round(t, 2), [reg_of(n) for n in names]) for t, names in subs_here][:6]}",
                      shape="registered-while-connected" if r > c["t_open"] else "after-connect")
                    break
    # ---- listen key expiry on a healthy connection
    for (x, cid, key, reg) in L.get("expiries", []):
        c = conns[cid - 1]
        h = c["t_bad"] if c["t_bad"] is not None else t_final
        if x + S < h:
            res.probes["key_expired_on_healthy_conn"] += 1
            fresh = {k for (t, kind, k) in L["keys"] if t > x and "ud:" + kind == reg}
            ok = any(x < t <= x + S and cid == cid2 and any(n in fresh for n in names) for (t, cid2, names) in L["subs"])
            if not ok:
                V("no-resubscription-after-key-expiry", f"listen key {key} ({reg}) expired at t={x:.2f} on connection #{cid}, which stayed "
                                                        f"healthy until {h:.2f}: no SUBSCRIBE with a fresh listen key followed on that "
                                                        f"connection within {S} s (fresh keys issued: {sorted(fresh)})")
    # ---- final convergence
    if L["final"] is not None:
        okc = True
        for who in sorted({w for _, _, w in regs}):
            want = {reg for (r, reg, w) in regs if w == who}
            if not any(want <= {reg_of(n) for n in subs} for (cid, subs, t_open) in L["final"]):
                okc = None
        want = {reg for (r, reg, w) in regs}
        if okc is None:
            V("not-converged", f"{t_final - t_last_fault:.1f} s after the last fault/registration no live connection has every "
                               f"registered channel subscribed: registered {sorted(want)}, live connections "
                               f"{[(cid, sorted(str(reg_of(n)) for n in subs)) for cid, subs, _ in L['final']]}, errors {L['errors'][-3:]}")
    # ---- keep-alive
    if flavour == "binance":
        for c in conns:
            h = c["t_bad"] if c["t_bad"] is not None else t_final
            for name, t_sub in c["subs"].items():
                reg = reg_of(name)
                if not reg or not reg.startswith("ud:"):
                    continue
                # the key is current until a newer key of the same kind is subscribed on this connection
                newer = [t for (t, cid, names) in L["subs"] if cid == c["id"] and t > t_sub
                         and any(reg_of(n) == reg and n != name for n in names)]
                until = min([h] + newer)
                puts = sorted(t for (t, kind, body) in L["puts"] if name in body and t_sub <= t <= until)
                pts = [t_sub] + puts + [until]
                if puts:
                    res.probes["keepalive_seen"] += 1
                for a, b_ in zip(pts, pts[1:]):
                    if b_ - a > ka_period + 2.0:
                        V("keep-alive-gap", f"user-data stream {reg} (listen key {name}) subscribed on healthy connection #{c['id']} from "
                                            f"{t_sub:.1f} to {until:.1f}: no keep-alive between t={a:.1f} and t={b_:.1f} "
                                            f"(period {ka_period} s); keep-alives at {[round(p, 1) for p in puts]}")
                        break
    for e_ in L["errors"]:
        if e_.startswith("private subscription without"):
            V("private-subscription-malformed", e_)
    if many:
        res.probes["more_than_200_channels"] += 1
    kinds_fired = {k for (t, k, _) in L["fault_log"]}
    if len(kinds_fired) >= 2:
        res.probes["two_fault_kinds"] += 1
    if len(conns) > 1:
        res.probes["reconnect_after_fault"] += 1
    if any("stalled_at" in c and c["closed_at"] is not None for c in conns) or any("stalled_at" in c for c in conns) and len(conns) > 1:
        res.probes["stall_detected"] += 1
    res.nontrivial = bool(len(kinds_fired) >= 2 and res.probes["registration_while_connected"])
    res.sig = digest_of((flavour, [k for _, k in faults], len(init_ch), [t for t, _ in later_ch]))
    res.stats["connections"] += len(conns)
    res.stats["subscribe_frames"] += len(L["subs"])
    res.stats["events_delivered"] += sum(len(v) for v in L["got"].values())
    res.stats["flavour:" + flavour] += 1
    # basana iterates a set of channel names when it subscribes, so frame order (hence which frame gets which latency)
    # legitimately follows PYTHONHASHSEED; across hash seeds only the outcome is comparable
    res.xdigest = digest_of((flavour, sorted(kinds_fired), [v[1] for v in res.violations]))
    res.digest = digest_of(([(round(c["t_open"], 6), sorted(c["subs"])) for c in conns],
                            [(round(t, 6), cid, sorted(n)) for t, cid, n in L["subs"]],
                            [(round(t, 6), o, w) for t, o, w in att], {k: len(v) for k, v in L["got"].items()}))
    return res
