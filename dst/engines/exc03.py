"""C03 - no look-ahead (clause 1) and independence of dispatcher concurrency (clause 2).

Clause 1 is judged in a fully observed exsim run (handlers may suspend).
Clause 2 is a differential: a scenario whose handlers never suspend is executed
under max_concurrent in {1,2,3,#pairs,#pairs+1,50} and under other task/producer
hash salts; the canonical fill history (per order in creation order: request and
every order event) and the final balances must be identical. post_check() repeats
a sample of scenarios in fresh interpreters under other PYTHONHASHSEED values.
"""
import json
import os
import subprocess
import sys

from ..runner import Result, digest_of, run_seed, REPO, VERIF
from ..tape import Tape
from . import exgen, exsim

PROP = "C03"


def META(prop):
    m = exsim.META("C03")
    m = dict(m)
    m["engine"] = "exc03"
    m["rule"] = m["rule"] + (" Differential: each non-suspending scenario is re-executed under every pool size in "
                             "{1,2,3,#pairs,#pairs+1,50} and two other hash salts (and a sample in fresh interpreters "
                             "under PYTHONHASHSEED 1 and 77); evaluations counts scenarios, stats.executions counts runs.")
    m["assumptions"] = m["assumptions"] + [
        "orders placed by scheduled jobs, or from handlers of order events that a job produced at its own timestamp, "
        "are exempt from clause 1 (jobs run before the events of their own timestamp, C13)"]
    m["probes_expected"] = ["pool_saturated_same_time", "differential_executed", "suspending_run"]
    return m


def _describe_diff(a, b):
    ha, ba = a
    hb, bb = b
    for i, (x, y) in enumerate(zip(ha, hb)):
        if x != y:
            return f"order #{i} {x[:6]}: events {x[6]} vs {y[6]}"
    if len(ha) != len(hb):
        return f"{len(ha)} vs {len(hb)} orders"
    return f"final balances {ba} vs {bb}"


def _variants(scn):
    n = len(scn["bases"])
    return [m for m in (1, 2, 3, n, n + 1, 50)]


def scenario_of(tape, prop, tier):
    scn = exgen.build(tape, "C03", tier)
    scn["nosusp"] = not tape.chance(0.35)
    return scn


simplifications = exsim.simplifications


def run(tape, prop, tier):
    return run_scenario(scenario_of(tape, prop, tier), prop, tier)


def run_scenario(scn, prop, tier):
    res = Result()
    ctx = exsim._execute(exsim.Ctx(scn, "C03"))
    herr = getattr(ctx, "harness_error", None)
    if herr:
        raise RuntimeError("harness error inside a handler:\n" + herr)
    if ctx.outcome != "returned":
        res.viol(PROP, "backtest-did-not-end", "backtest-did-not-end", f"run(): {ctx.outcome}")
    for p_, (clause, shape, msg) in ctx.viol.items():
        res.viol(p_, clause, shape, msg + f" [max_concurrent={ctx.maxc}]")
    res.stats = ctx.stats
    res.probes = ctx.probes
    res.faults = ctx.faults
    res.states = ctx.states
    res.vtime = ctx.vtime
    res.steps = ctx.steps
    res.stats["executions"] += 1
    # same-time saturation probe
    times = {}
    for rows in scn["bars"]:
        for r in rows:
            times[r["k"]] = times.get(r["k"], 0) + 1
    sat = any(v > scn["maxc"] for v in times.values())
    if sat:
        res.probes["pool_saturated_same_time"] += 1
    finals = []
    if scn["nosusp"] and ctx.outcome == "returned":
        ref = exsim._execute(exsim.Ctx(scn, "C03", light=True))
        res.stats["executions"] += 1
        if ref.final != ctx.final:
            # the two executions differ only in how often read-only queries (get_balances, get_orders, get_open_orders,
            # get_loans) are issued between the strategy's own calls; on a correct tree they never differ
            res.viol(PROP, "observation-dependent", "observation-dependent",
                     f"same scenario, same max_concurrent={scn['maxc']}: polling the exchange's read-only queries more often "
                     f"changes the result: {_describe_diff(ref.final, ctx.final)}")
        res.probes["differential_executed"] += 1
        salts = [scn["salt"], scn["salt"] + 17, scn["salt"] + 101]
        k = 0
        for maxc in _variants(scn):
            for salt in (salts[k % 3], salts[(k + 1) % 3]) if maxc in (1, 50) else (salts[k % 3],):
                if maxc == scn["maxc"] and salt == scn["salt"]:
                    continue
                c = exsim._execute(exsim.Ctx(scn, "C03", maxc=maxc, salt=salt, light=True))
                res.stats["executions"] += 1
                finals.append((maxc, salt, digest_of(c.final)))
                if c.final != ref.final and not res.first(PROP):
                    res.viol(PROP, "concurrency-dependent", "concurrency-dependent",
                             f"same scenario, non-suspending handlers: max_concurrent={scn['maxc']} (salt {scn['salt']}) and "
                             f"max_concurrent={maxc} (salt {salt}) give different results: {_describe_diff(ref.final, c.final)} "
                             f"[pairs={len(scn['bases'])} sub_first={scn['sub_first']} ts_mode={scn['ts_mode']}]")
            k += 1
    else:
        res.probes["suspending_run"] += 1
    res.nontrivial = bool(sat and ctx.stats["fills"] > 0)
    kinds = tuple(t[0].split("(")[0] + ":" + t[1] for t in ctx.trace if t[0] != "oe")
    res.sig = digest_of((len(scn["bases"]), scn["maxc"], scn["ts_mode"], kinds))
    res.digest = digest_of((ctx.trace, ctx.final, ctx.outcome, finals))
    res.scenario = scn
    res.sample = dict(config={k: scn[k] for k in ("bases", "prec", "fee", "liq", "init", "maxc", "sub_first", "ts_mode", "nosusp")},
                      bars_per_pair=[len(b) for b in scn["bars"]],
                      ops=[t[0] + " -> " + t[1] for t in ctx.trace if t[0] != "oe"][:20],
                      variants=finals[:8])
    return res


def finals_for(base_seed, n):
    """digest of the canonical result of the first n non-suspending scenarios (used across interpreters)"""
    out = []
    for idx in range(n):
        tape = Tape(seed=run_seed(base_seed, PROP, idx))
        scn = exgen.build(tape, "C03", "quick")
        scn["nosusp"] = True
        c = exsim._execute(exsim.Ctx(scn, "C03", light=True))
        out.append(digest_of(c.final))
    return out


def post_check(prop, tier, base_seed):
    """-> (list of (clause, shape, message, seed), info dict). Hash-seed clause of C03."""
    n = 24 if tier == "quick" else 300
    mine = finals_for(base_seed, n)
    bad = []
    info = dict(hash_seeds=[0, 1, 77], scenarios=n)
    for hs in ("1", "77"):
        env = dict(os.environ, PYTHONHASHSEED=hs)
        code = ("import sys,json; sys.path.insert(0,%r); sys.path.insert(0,%r);"
                "from dst.engines import exc03; print(json.dumps(exc03.finals_for(%d,%d)))" % (VERIF, REPO, base_seed, n))
        p = subprocess.run([sys.executable, "-c", code], env=env, capture_output=True, text=True, timeout=3000)
        if p.returncode != 0:
            raise RuntimeError("hash-seed child failed: " + p.stderr[-1500:])
        theirs = json.loads(p.stdout.strip().splitlines()[-1])
        for i, (a, b) in enumerate(zip(mine, theirs)):
            if a != b:
                bad.append(("hash-seed-dependent", "hash-seed-dependent",
                            f"scenario {i} gives different fills/balances under PYTHONHASHSEED=0 and {hs}",
                            run_seed(base_seed, PROP, i)))
                break
    return bad, info
