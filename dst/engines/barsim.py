"""C19 - bars from live trades (RealTimeTradesToBar on the virtual clock) and from CSV rows.

Real code: basana.core.bar.RealTimeTradesToBar (push_trade, _flush, main), Bar, BarEvent,
RealtimeDispatcher / BacktestingDispatcher, core.event_sources.csv (encoding detection, sorting),
common/binance/bitstamp/yahoo row parsers and bar sources.
Simulated: the trade feed (timestamps at microsecond resolution, arrival latency), the clocks,
timer lateness, the CSV files' content.
"""
import asyncio
import codecs
import collections
import datetime
import json
import os
import shutil
import tempfile
from decimal import Decimal as D

from ..loop import run_sim, SimDeadlock, SimLimit, UTC
from ..runner import Result, digest_of

PROP = "C19"
EPOCH = datetime.datetime.fromtimestamp(0, tz=UTC)

META = dict(
    engine="barsim", level="exploration",
    rule=("aggregator runs (about 55%; another 15% feed the aggregator through the real Bitstamp Exchange client from a fake "
          "websocket peer over SimNet): bar duration in {1,5,60,3600}, flush_delay in {0,0.25,0.5,2}, skip_first_bar on/off, "
          "3-8 windows, trades stamped at microsecond resolution with bias to window boundaries (first instant, last "
          "millisecond, sub-millisecond tail, exact boundary), arrival latency {0, 10 ms, 0.2 s, just before / after the "
          "flush, 1.5 windows}, timers up to 50 ms late; CSV runs: 1-3 generated files (UTF-8 with/without BOM, UTF-16/32 "
          "LE/BE with BOM), rows in any order, zero volumes, decimals in several notations, read by the Binance / "
          "Bitstamp / Yahoo bar sources through the backtesting dispatcher. Non-trivial: a window with a trade in its "
          "last millisecond or a late trade (aggregator), or a file that is not plain UTF-8 / not sorted (CSV). "
          "Distinct by (kind, config, per-window trade placement classes)."),
    components=dict(real=["basana.external.bitstamp.exchange.Exchange.subscribe_to_bar_events (+ public websocket client, trades)",
                          "basana.core.bar.RealTimeTradesToBar", "Bar", "BarEvent", "RealtimeDispatcher", "BacktestingDispatcher",
                          "basana.core.event_sources.csv", "external.common.csv.bars.RowParser", "binance.csv.BarSource",
                          "bitstamp.csv.BarSource", "yahoo.bars.CSVBarSource"],
                    simulated=["trade feed and its latency", "dt.utc_now / loop clock", "timer lateness", "CSV file content"]),
    assumptions=["guard band of 1 ms + injected lateness around each flush instant: inside it either outcome is accepted",
                 "BOM-less UTF-16/32 files are outside the generated domain (no reader can identify them without guessing)",
                 "the CSV clause is input generation riding on the simulated dispatcher"],
    probes_expected=["websocket_fed_run", "trade_in_last_ms", "trade_in_sub_ms_tail", "trade_on_boundary", "late_trade", "out_of_order_trade",
                     "empty_window", "csv_bom_utf16", "csv_bom_utf32", "csv_unsorted", "csv_zero_volume", "csv_duplicate_timestamp", "late_timer"],
    states_measure="distinct (pending trades, windows flushed) pairs at push time",
)


def wbegin(dt_, dur):
    us = (dt_ - EPOCH) // datetime.timedelta(microseconds=1)
    return EPOCH + datetime.timedelta(microseconds=us - us % (dur * 10 ** 6))


def run(tape, prop, tier):
    k = tape.weighted([(11, "agg"), (6, "csv"), (3, "ws")])
    if k == "csv":
        return run_csv(tape, prop, tier)
    if k == "ws":
        return run_ws(tape, prop, tier)
    return run_agg(tape, prop, tier)


def run_agg(tape, prop, tier):
    res = Result()
    dur = tape.choice([5, 1, 60, 3600])
    fd = tape.choice([0.5, 0.0, 0.25, 2.0])
    skip = tape.chance(0.5)
    nwin = 3 + tape.draw(6)
    start_off = tape.draw(1000) / 1000.0 * dur          # where in its window the run starts
    late = tape.chance(0.5)
    late_seed = tape.subseed()
    late_max = 0.05
    trades_spec = []
    for w in range(nwin):
        n = tape.choice([1, 0, 2, 5])
        for _ in range(n):
            place = tape.weighted([(6, "uniform"), (1, "first"), (1, "first+1us"), (1, "last_us"), (2, "sub_ms_tail"),
                                   (1, "last_ms"), (1, "just_before_last_ms")])
            frac = tape.draw(10 ** 6)
            lat = tape.weighted([(5, "none"), (2, "10ms"), (2, "200ms"), (1, "before_flush"), (1, "after_flush"),
                                 (1, "very_late")])
            trades_spec.append((w, place, frac, lat))
    # a second aggregator (another pair, possibly another bar length) alive in the same process, as on an exchange
    # client that follows two markets; its bars are only looked at for cross-talk
    companion = tape.choice([dur, max(1, dur // 5), dur * 2]) if tape.chance(0.3) else None
    # two fills of one taker order against equal resting orders: same microsecond, same price, same amount
    twins = tape.chance(0.25)
    res.sample = dict(kind="aggregator", bar_duration=dur, flush_delay=fd, skip_first_bar=skip, windows=nwin,
                      start_offset=start_off, timer_lateness=late, companion_bar_duration=companion,
                      trades=trades_spec[:12])
    wall0 = 1_700_000_000.0 - (1_700_000_000 % dur) + start_off
    pushed = []
    emitted = []
    errs = []
    out = {}

    async def main(loop):
        import basana as bs
        from basana.core import bar, dt as bdt
        src = bar.RealTimeTradesToBar(bs.Pair("BTC", "USD"), dur, skip_first_bar=skip, flush_delay=fd)
        src.on_error = lambda e_: errs.append(str(e_))
        d = bs.realtime_dispatcher(max_concurrent=3)
        d.idle_sleep = max(0.01, dur / 200.0)

        async def on_bar(ev):
            emitted.append((loop.wall(), ev))
        d.subscribe(src, on_bar)
        other_bars = []
        other_trades = []
        if companion:
            other = bar.RealTimeTradesToBar(bs.Pair("ETH", "USD"), companion, skip_first_bar=False, flush_delay=fd)
            other.on_error = lambda e_: None

            async def on_other_bar(ev):
                other_bars.append(ev.bar)
            d.subscribe(other, on_other_bar)
            res.probes["two_aggregators_alive"] += 1

            async def other_feeder():
                k = 0
                while True:
                    await asyncio.sleep(dur / 3.0)
                    k += 1
                    ts_ = bdt.utc_now()
                    other.push_trade(ts_, D(5000 + k), D(7))
                    other_trades.append((ts_, D(5000 + k)))
            oft = asyncio.ensure_future(other_feeder())
        out["other"] = (other_bars, other_trades)
        start = bdt.utc_now()
        first_begin = wbegin(start, dur)
        out["start"] = start
        trades = []
        for i, (w, place, frac, lat) in enumerate(trades_spec):
            b = first_begin + datetime.timedelta(seconds=w * dur)
            dur_us = dur * 10 ** 6
            off_us = {"uniform": frac * dur_us // 10 ** 6, "first": 0, "first+1us": 1, "last_us": dur_us - 1,
                      "sub_ms_tail": dur_us - 1 - frac % 999, "last_ms": dur_us - 1000,
                      "just_before_last_ms": dur_us - 1001 - frac % 50}[place]
            ts = b + datetime.timedelta(microseconds=off_us + 0)
            if ts < start:
                continue
            lat_s = {"none": 0.0, "10ms": 0.01, "200ms": 0.2, "before_flush": max(0.0, fd - 0.05 - late_max),
                     "after_flush": fd + 0.3 + (dur - off_us / 1e6), "very_late": dur * 1.5 + fd}[lat]
            trades.append((ts, lat_s, place, i))
        # unique timestamps
        seen = set()
        uniq = []
        for t_ in trades:
            while t_[0] in seen:
                t_ = (t_[0] + datetime.timedelta(microseconds=1),) + t_[1:]
            seen.add(t_[0])
            uniq.append(t_)
        trades = sorted(uniq, key=lambda x: (x[0] - EPOCH).total_seconds() + x[1])
        twin_of = {}
        if twins:
            with_twins = []
            for t_ in trades:
                with_twins.append(t_)
                if t_[3] % 3 == 1:
                    with_twins.append(t_)          # pushed twice: two distinct trades that look the same
                    twin_of[t_[3]] = True
                    res.probes["identical_consecutive_trades"] += 1
            trades = with_twins

        async def feeder():
            for (ts, lat_s, place, i) in trades:
                at = (ts - EPOCH).total_seconds() + lat_s
                delay = at - loop.wall()
                if delay > 0:
                    await asyncio.sleep(delay)
                n0 = len(errs)
                price = D(100 + i)
                amount = D(1) + D(i) / 1000
                src.push_trade(ts, price, amount)
                pushed.append(dict(when=ts, price=price, amount=amount, at=loop.wall(), place=place,
                                   rejected_at_push=len(errs) > n0))
                res.states.add(hash((len(src._trades) if hasattr(src, "_trades") else 0, len(emitted))) & 0xffffffff)
            await asyncio.sleep(dur * 2 + fd + 1 + late_max)
            d.stop()
        ft = asyncio.ensure_future(feeder())
        try:
            await d.run(stop_signals=[])
            out["o"] = "returned"
        except (Exception, asyncio.CancelledError) as e_:
            out["o"] = f"raised {type(e_).__name__}: {e_}"
        ft.cancel()
        if companion:
            oft.cancel()
        return loop

    try:
        loop = run_sim(main, salt=0, wall_offset=wall0, max_steps=4_000_000, wall_limit=8,
                       late_seed=late_seed if late else None, late_prob=0.3, late_max=late_max)
        res.vtime = loop.time()
        res.steps = loop.steps
        if loop.late_fired:
            res.faults["timer_fired_late"] += loop.late_fired
            res.probes["late_timer"] += 1
    except SimDeadlock:
        out["o"] = "deadlock"
    except SimLimit as e_:
        out["o"] = f"limit {e_}"

    r = judge_agg(res, out, dur, fd, skip, late, late_max, nwin, trades_spec, pushed, emitted, errs, "agg")
    # cross-talk: the companion's bars are made of the companion's trades only (prices >= 5000, amounts of 7)
    ob, ot = out.get("other", ([], []))
    for b in ob:
        if b.low < 5000 or b.volume % 7 != 0 or b.pair.base_symbol != "ETH":
            r.viol(PROP, "bar-content", "bar-content", f"bar of the second aggregator (ETH/USD, trades at 5000+, amount 7 each) has "
                                                        f"low {b.low} volume {b.volume}: it contains trades pushed to the first one")
            break
    return r


def judge_agg(res, out, dur, fd, skip, late, late_max, nwin, trades_spec, pushed, emitted, errs, kind, guard_extra=0.0):
    def V(clause, msg):
        res.viol(PROP, clause, clause, msg + f" [duration={dur} flush_delay={fd} skip_first_bar={skip}]")

    if out.get("o") != "returned":
        V("run-failed", f"dispatcher run: {out.get('o')}")
        res.digest = digest_of((out.get("o"),))
        return res
    start = out["start"]
    firstw = wbegin(start, dur)
    guard = 1e-3 + (late_max if late else 0.0) + guard_extra
    bars = {}
    last_when = None
    for wall, ev in emitted:
        b = ev.bar.datetime
        if b != wbegin(b, dur):
            V("bar-not-aligned", f"bar begins at {b}")
        if b in bars:
            V("duplicate-bar", f"two bars for the window starting {b}")
        bars[b] = ev
        end = b + datetime.timedelta(seconds=dur)
        if not (end - datetime.timedelta(milliseconds=1) <= ev.when <= end):
            V("bar-stamp", f"bar of window [{b}, {end}) stamped {ev.when}")
        if wall < (end - EPOCH).total_seconds() - 1e-3:
            V("bar-early", f"bar of window ending {end} delivered at wall {wall}")
        if last_when is not None and ev.when < last_when:
            V("bars-out-of-order", f"bar stamped {ev.when} after {last_when}")
        last_when = ev.when
        bb = ev.bar
        if not (bb.low <= bb.open <= bb.high and bb.low <= bb.close <= bb.high):
            V("ohlc-order", f"o={bb.open} h={bb.high} l={bb.low} c={bb.close}")
    rep = collections.Counter()
    for e_ in errs:
        try:
            dct = json.loads(e_[e_.index("{"):])
            rep[dct.get("current") or dct.get("datetime")] += 1
        except Exception:
            rep["?"] += 1

    def flush_at(w):
        return (w + datetime.timedelta(seconds=dur) - EPOCH).total_seconds() - 1e-6 + fd
    per = collections.defaultdict(list)
    for p in pushed:
        key = str(p["when"])
        reported = rep[key] > 0
        if reported:
            rep[key] -= 1
        p["reported"] = reported
        w = wbegin(p["when"], dur)
        fa = flush_at(w)
        clearly_early = p["at"] < fa - guard
        clearly_late = p["at"] > fa + guard + 1e-3     # the pinned window end was 1 ms earlier: stay clear of both
        if clearly_late:
            res.probes["late_trade"] += 1
            if not reported:
                V("late-trade-not-reported", f"trade stamped {p['when']} arrived at {p['at']:.6f}, after its window was "
                                             f"flushed at {fa:.6f}, and was not reported")
        p["must"] = clearly_early
        off = (p["when"] - w).total_seconds()
        if dur - off <= 0.001 + 1e-9:
            res.probes["trade_in_last_ms"] += 1
            if dur - off < 0.001 - 1e-9:
                res.probes["trade_in_sub_ms_tail"] += 1
        if off == 0:
            res.probes["trade_on_boundary"] += 1
        if reported:
            continue
        if w == firstw and skip:
            continue
        per[w].append(p)
    for k_, n_ in rep.items():
        if n_ > 0:
            V("spurious-report", f"{n_} error reports for a trade stamped {k_} that cannot be attributed to a pushed trade")
            break
    mx = None
    for p in pushed:
        in_order = mx is None or p["when"] >= mx
        if not in_order:
            res.probes["out_of_order_trade"] += 1
        if not in_order and not p["reported"]:
            V("out-of-order-trade-accepted", f"trade stamped {p['when']} was pushed after a trade stamped {mx} had been accepted, "
                                             f"and was neither rejected nor reported (it ends up in a bar in arrival order)")
            break
        if p["must"] and in_order and p["reported"]:
            V("in-order-trade-dropped", f"trade stamped {p['when']} (offset {(p['when'] - wbegin(p['when'], dur)).total_seconds():.6f} s "
                                        f"into its window) arrived at {p['at']:.6f}, before its window was flushed at "
                                        f"{flush_at(wbegin(p['when'], dur)):.6f}, in order, and was reported instead of "
                                        f"being put into a bar: {errs[:2]}")
            break
        if not p["reported"]:
            mx = p["when"] if mx is None else max(mx, p["when"])
    end_wall = (start - EPOCH).total_seconds() + res.vtime
    for w, ps in per.items():
        if w not in bars:
            # still pending (window not flushed before the run ended) is fine
            if flush_at(w) + guard + 0.05 < end_wall - 0.5:
                V("accepted-trades-lost", f"window {w} has {len(ps)} accepted trades {[str(p['when'].time()) for p in ps]} "
                                          f"but no bar was emitted; reports: {errs[:2]}")
            continue
        bb = bars[w].bar
        exp = (ps[0]["price"], max(p["price"] for p in ps), min(p["price"] for p in ps), ps[-1]["price"],
               sum(p["amount"] for p in ps))
        got = (bb.open, bb.high, bb.low, bb.close, bb.volume)
        if got != exp:
            # trades inside the guard band may legitimately be in or out: recompute without the undecided ones
            firm = [p for p in ps if p["must"]]
            alt = (firm and (firm[0]["price"], max(p["price"] for p in firm), min(p["price"] for p in firm),
                             firm[-1]["price"], sum(p["amount"] for p in firm)))
            if got != alt:
                V("bar-content", f"bar {w}: (o,h,l,c,v)={got}, its trades give {exp}; trades "
                                 f"{[(str(p['when'].time()), str(p['price'])) for p in ps]}")
    for w in bars:
        if w not in per:
            V("bar-without-trades", f"bar for window {w} although no accepted trade lies in it")
    nwin_empty = sum(1 for w in range(nwin) if not any(t_[0] == w for t_ in trades_spec))
    if nwin_empty:
        res.probes["empty_window"] += 1
    res.nontrivial = bool(res.probes["trade_in_last_ms"] or res.probes["late_trade"])
    res.sig = digest_of((kind, dur, fd, skip, [(w, pl, lt) for (w, pl, fr, lt) in trades_spec]))
    res.stats["trades"] += len(pushed)
    res.stats["bars"] += len(bars)
    res.stats["reports"] += len(errs)
    res.digest = digest_of(([(p["when"], p["at"], p["reported"]) for p in pushed],
                            [(w_, e_.when, e_.bar.volume) for w_, e_ in emitted], errs))
    return res



# ------------------------------------------------------------------ live trades over the (simulated) Bitstamp websocket
def run_ws(tape, prop, tier):
    """Exchange.subscribe_to_bar_events of the Bitstamp client: trades arrive as websocket messages from a fake peer
    over SimNet, become TradeEvents through the realtime dispatcher and are aggregated by RealTimeTradesToBar."""
    import json as _json
    import logging
    import random
    res = Result()
    dur = tape.choice([5, 1, 60])
    fd = tape.choice([1.0, 0.5, 0.25, 2.0])
    skip = tape.chance(0.5)
    nwin = 3 + tape.draw(4)
    start_off = tape.draw(1000) / 1000.0 * dur
    net_seed = tape.subseed()
    trades_spec = []
    for w in range(nwin):
        for _ in range(tape.choice([1, 0, 2, 4])):
            place = tape.weighted([(6, "uniform"), (1, "first"), (1, "last_us"), (2, "sub_ms_tail"), (1, "last_ms")])
            frac = tape.draw(10 ** 6)
            lat = tape.weighted([(6, "none"), (2, "200ms"), (1, "after_flush"), (1, "very_late")])
            trades_spec.append((w, place, frac, lat))
    res.sample = dict(kind="bitstamp-websocket", bar_duration=dur, flush_delay=fd, skip_first_bar=skip, windows=nwin,
                      start_offset=start_off, trades=trades_spec[:12])
    wall0 = 1_700_000_000.0 - (1_700_000_000 % dur) + start_off
    pushed, emitted, errs = [], [], []
    out = {}

    class Cap(logging.Handler):
        def emit(self, record):
            errs.append(str(record.msg))

    async def main(loop):
        import aiohttp
        from aiohttp import web
        import basana as bs
        from basana.core import dt as bdt
        from basana.external.bitstamp import exchange as bex
        from ..net import SimNet, SimConnector
        rng = random.Random(net_seed)
        conns = []

        async def handler(request):
            ws = web.WebSocketResponse()
            await ws.prepare(request)
            conns.append(ws)
            async for msg in ws:
                if msg.type == aiohttp.WSMsgType.TEXT:
                    m = _json.loads(msg.data)
                    if m.get("event") == "bts:subscribe":
                        await ws.send_str(_json.dumps({"event": "bts:subscription_succeeded", "channel": m["data"]["channel"], "data": {}}))
            return ws
        server = web.Server(handler)
        net = SimNet(loop, rng, {"ws.sim": server}, min_latency=0.001, jitter=0.004)
        sess = aiohttp.ClientSession(connector=SimConnector(net))
        d = bs.realtime_dispatcher(max_concurrent=5)
        d.idle_sleep = max(0.01, min(0.05, dur / 200.0))
        cfg = {"api": {"http": {"base_url": "http://api.sim/"}, "websockets": {"base_url": "http://ws.sim/", "heartbeat": 30}}}
        e = bex.Exchange(d, session=sess, config_overrides=cfg)
        pair = bs.Pair("BTC", "USD")

        async def on_bar(ev):
            emitted.append((loop.wall(), ev))

        async def on_trade(ev):
            # subscribed after the aggregator: runs right after its push_trade for the same event
            n_before = on_trade.nerr
            on_trade.nerr = len(errs)
            pushed.append(dict(when=ev.trade.datetime, price=ev.trade.price, amount=ev.trade.amount, at=loop.wall(),
                               place="ws", rejected_at_push=len(errs) > n_before))
        on_trade.nerr = 0
        e.subscribe_to_bar_events(pair, dur, on_bar, skip_first_bar=skip, flush_delay=fd)
        e.subscribe_to_public_trade_events(pair, on_trade)
        start = bdt.utc_now()
        first_begin = wbegin(start, dur)
        out["start"] = start
        trades = []
        seen = set()
        for i, (w, place, frac, lat) in enumerate(trades_spec):
            b = first_begin + datetime.timedelta(seconds=w * dur)
            dur_us = dur * 10 ** 6
            off_us = {"uniform": frac * dur_us // 10 ** 6, "first": 0, "last_us": dur_us - 1,
                      "sub_ms_tail": dur_us - 1 - frac % 999, "last_ms": dur_us - 1000}[place]
            ts = b + datetime.timedelta(microseconds=off_us)
            while ts in seen:
                ts += datetime.timedelta(microseconds=1)
            seen.add(ts)
            if (ts - start).total_seconds() < 0.5:
                continue            # the connection is not up yet
            lat_s = {"none": 0.0, "200ms": 0.2, "after_flush": fd + 0.3 + (dur - off_us / 1e6), "very_late": dur * 1.5 + fd}[lat]
            trades.append((ts, lat_s, i))
        trades.sort(key=lambda x: (x[0] - EPOCH).total_seconds() + x[1])

        async def feeder():
            for (ts, lat_s, i) in trades:
                at = (ts - EPOCH).total_seconds() + lat_s
                delay = at - loop.wall()
                if delay > 0:
                    await asyncio.sleep(delay)
                us = (ts - EPOCH) // datetime.timedelta(microseconds=1)
                msg = {"event": "trade", "channel": "live_trades_btcusd",
                       "data": {"id": i, "amount": float(1 + i / 1000), "amount_str": str(D(1) + D(i) / 1000), "price": 100 + i,
                                "price_str": str(100 + i), "type": 0, "microtimestamp": str(us), "timestamp": str(us // 10 ** 6),
                                "buy_order_id": 1, "sell_order_id": 2}}
                for ws in conns[-1:]:
                    if not ws.closed:
                        await ws.send_str(_json.dumps(msg))
            await asyncio.sleep(dur * 2 + fd + 1)
            d.stop()
        ft = asyncio.ensure_future(feeder())
        try:
            await d.run(stop_signals=[])
            out["o"] = "returned"
        except (Exception, asyncio.CancelledError) as e_:
            out["o"] = f"raised {type(e_).__name__}: {e_}"
        ft.cancel()
        await sess.close()
        await server.shutdown(0.5)
        return loop

    cap = Cap(level=logging.ERROR)
    blog = logging.getLogger("basana.core.bar")
    blog.addHandler(cap)
    try:
        loop = run_sim(main, salt=0, wall_offset=wall0, max_steps=4_000_000, wall_limit=20)
        res.vtime = loop.time()
        res.steps = loop.steps
    except SimDeadlock:
        out["o"] = "deadlock"
    except SimLimit as e_:
        out["o"] = f"limit {e_}"
    finally:
        blog.removeHandler(cap)
    res.probes["websocket_fed_run"] += 1
    # a trade is pushed one network hop and one dispatcher poll after the peer sent it; "at" is the push instant itself
    return judge_agg(res, out, dur, fd, skip, False, 0.0, nwin, trades_spec, pushed, emitted, errs, "ws")


# ------------------------------------------------------------------ CSV
NOTATIONS = ["plain", "trailing_zeros", "exp", "leading_plus_exp", "no_leading_zero"]


def fmt_dec(v, how):
    if how == "plain":
        return format(v, "f")
    if how == "trailing_zeros":
        return format(v, "f") + ("0" if "." in format(v, "f") else ".00")
    if how == "exp":
        return format(v, "E")
    if how == "leading_plus_exp":
        return "{:e}".format(v)
    s = format(v, "f")
    return s[1:] if s.startswith("0.") else s


def run_csv(tape, prop, tier):
    res = Result()
    nsrc = 1 + tape.draw(3)
    specs = []
    for si in range(nsrc):
        kind = tape.choice(["binance", "bitstamp", "yahoo"])
        period = (tape.choice(["1m", "1h", "1d", "1M", "1s", "5m", "4h", "1w", "3d"]) if kind == "binance" else
                  tape.choice(["1m", "1h", "1d", "5m", "4h", "12h", "3d"]) if kind == "bitstamp" else "1d")
        enc = tape.choice(["utf-8", "utf-8-sig", "utf-16-le", "utf-16-be", "utf-32-le", "utf-32-be"])
        n = tape.draw(25)
        order = tape.choice(["sorted", "shuffled", "reversed"])
        sort = True if order != "sorted" else tape.chance(0.5)
        rows = []
        px = tape.int(1, 100000)
        dups = tape.chance(0.25)
        jj = -1
        for _ in range(n):
            # duplicated timestamps are legal CSV content (overlapping downloads): ties keep the file's order
            jj = jj + (0 if (dups and jj >= 0 and tape.chance(0.25)) else 1)
            j = jj
            lv = sorted(D(max(1, px + tape.int(0, 400) - 200)).scaleb(-tape.draw(4)) for _ in range(4))
            o = tape.choice([lv[1], lv[2], lv[0], lv[3]])
            c = tape.choice([lv[2], lv[1], lv[3], lv[0]])
            zero = kind != "yahoo" and tape.chance(0.2)
            vol = D(0) if zero else D(tape.int(1, 10 ** 7)).scaleb(-tape.draw(9))
            rows.append(dict(j=j, o=o, h=lv[3], l=lv[0], c=c, v=vol, note=tape.choice(NOTATIONS),
                             key=tape.draw(10 ** 6)))
        specs.append(dict(kind=kind, period=period, enc=enc, order=order, sort=sort, rows=rows, crlf=tape.chance(0.3)))
    maxc = tape.choice([50, 1, 2])
    res.sample = dict(kind="csv", sources=[{k: v for k, v in s.items() if k != "rows"} | dict(nrows=len(s["rows"]))
                                           for s in specs])
    tmp = tempfile.mkdtemp(prefix="barsim_")
    got = collections.defaultdict(list)
    out = {}
    # (Binance's month bar is taken as 31 days, as its bar downloader documents)
    step = {"1s": 1, "1m": 60, "5m": 300, "1h": 3600, "4h": 14400, "12h": 43200, "1d": 86400, "3d": 259200, "1w": 604800,
            "1M": 31 * 86400}
    T0 = datetime.datetime(2015, 1, 1, tzinfo=UTC)
    try:
        expected = {}
        for si, s in enumerate(specs):
            rows = list(s["rows"])
            if s["order"] == "shuffled":
                rows.sort(key=lambda r: r["key"])
            elif s["order"] == "reversed":
                rows.reverse()
            lines = []
            if s["kind"] == "yahoo":
                lines.append("Date,Open,High,Low,Close,Volume,Adj Close")
            else:
                lines.append("datetime,open,high,low,close,volume")
            exp = []
            for r in rows:
                dt_ = T0 + datetime.timedelta(seconds=step[s["period"]] * r["j"])
                f = lambda v: fmt_dec(v, r["note"])
                if s["kind"] == "yahoo":
                    lines.append(f"{dt_.strftime('%Y-%m-%d')},{f(r['o'])},{f(r['h'])},{f(r['l'])},{f(r['c'])},{f(r['v'])},{f(r['c'])}")
                else:
                    lines.append(f"{dt_.strftime('%Y-%m-%d %H:%M:%S')},{f(r['o'])},{f(r['h'])},{f(r['l'])},{f(r['c'])},{f(r['v'])}")
                if r["v"] != 0:
                    exp.append((dt_ + datetime.timedelta(seconds=step[s["period"]]), dt_, r["o"], r["h"], r["l"], r["c"], r["v"]))
                else:
                    res.probes["csv_zero_volume"] += 1
            if s["sort"]:
                exp.sort(key=lambda x: x[0])          # stable: rows with equal timestamps keep their file order
            if len({x[0] for x in exp}) < len(exp):
                res.probes["csv_duplicate_timestamp"] += 1
            expected[si] = exp
            text = ("\r\n" if s["crlf"] else "\n").join(lines) + ("\r\n" if s["crlf"] else "\n")
            bom = {"utf-8": b"", "utf-8-sig": b"", "utf-16-le": codecs.BOM_UTF16_LE, "utf-16-be": codecs.BOM_UTF16_BE,
                   "utf-32-le": codecs.BOM_UTF32_LE, "utf-32-be": codecs.BOM_UTF32_BE}[s["enc"]]
            with open(os.path.join(tmp, f"f{si}.csv"), "wb") as fh:
                fh.write(bom + text.encode(s["enc"]))
            if "16" in s["enc"]:
                res.probes["csv_bom_utf16"] += 1
            if "32" in s["enc"]:
                res.probes["csv_bom_utf32"] += 1
            if s["order"] != "sorted":
                res.probes["csv_unsorted"] += 1

        async def main(loop):
            import basana as bs
            from basana.external.binance import csv as bcsv
            from basana.external.bitstamp import csv as scsv
            from basana.external.yahoo import bars as ybars
            d = bs.backtesting_dispatcher(max_concurrent=maxc)
            for si, s in enumerate(specs):
                path = os.path.join(tmp, f"f{si}.csv")
                pair = bs.Pair(f"S{si}", "USD")
                if s["kind"] == "binance":
                    src = bcsv.BarSource(pair, path, s["period"], sort=s["sort"])
                elif s["kind"] == "bitstamp":
                    src = scsv.BarSource(pair, path, s["period"], sort=s["sort"])
                else:
                    src = ybars.CSVBarSource(pair, path, sort=s["sort"], tzinfo=UTC)

                async def h(ev, si=si):
                    got[si].append(ev)
                    out.setdefault("order", []).append(ev.when)
                d.subscribe(src, h)
            try:
                await d.run(stop_signals=[])
                out["o"] = "returned"
            except (Exception, asyncio.CancelledError) as e_:
                out["o"] = f"raised {type(e_).__name__}: {e_}"
            return loop
        try:
            loop = run_sim(main, salt=0, max_steps=500_000)
            res.vtime = loop.time()
            res.steps = loop.steps
        except (SimDeadlock, SimLimit) as e_:
            out["o"] = f"{type(e_).__name__}"
    finally:
        shutil.rmtree(tmp, ignore_errors=True)

    def V(clause, msg):
        res.viol(PROP, clause, clause, msg)
    if out.get("o") != "returned":
        V("csv-run-failed", f"backtest over generated CSV files: {out.get('o')}; sources "
                            f"{[(s['kind'], s['enc'], s['order'], s['sort']) for s in specs]}")
    else:
        for si, s in enumerate(specs):
            g = [(ev.when, ev.bar.datetime, ev.bar.open, ev.bar.high, ev.bar.low, ev.bar.close, ev.bar.volume)
                 for ev in got[si]]
            if g != expected[si]:
                k = next((i for i, (a, b) in enumerate(zip(g, expected[si])) if a != b), min(len(g), len(expected[si])))
                V("csv-rows", f"source {si} ({s['kind']}, {s['enc']}, {s['order']}, sort={s['sort']}): {len(g)} events for "
                              f"{len(expected[si])} non-zero-volume rows; first difference at #{k}: "
                              f"{g[k] if k < len(g) else None} vs {expected[si][k] if k < len(expected[si]) else None}")
                break
            for ev in got[si]:
                bb = ev.bar
                if not (bb.low <= bb.open <= bb.high and bb.low <= bb.close <= bb.high):
                    V("ohlc-order", f"csv bar o={bb.open} h={bb.high} l={bb.low} c={bb.close}")
        order = out.get("order", [])
        if order != sorted(order):
            V("csv-merge-order", "events of several CSV sources not delivered in time order")
    res.nontrivial = any(s["enc"] != "utf-8" or s["order"] != "sorted" for s in specs)
    res.sig = digest_of(("csv", [(s["kind"], s["period"], s["enc"], s["order"], s["sort"], len(s["rows"])) for s in specs]))
    res.stats["csv_rows"] += sum(len(s["rows"]) for s in specs)
    res.digest = digest_of(([[(ev.when, ev.bar.volume) for ev in got[si]] for si in range(nsrc)], out.get("o")))
    return res
