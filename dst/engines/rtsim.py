"""C15 - realtime dispatcher: nothing early, per-source FIFO with reported drops,
bounded liveness, idle handlers only when idle.

Real code: RealtimeDispatcher (dispatch loop, _push_events, _push_scheduled,
_on_idle), EventMultiplexer, SchedulerQueue, TaskPool, FifoQueueEventSource.
Simulated: feeders pushing events over virtual time, handlers, jobs, idle
handlers, wall clock (dt.utc_now) and loop clock, timer lateness.
"""
import asyncio
import collections
import datetime

from ..loop import run_sim, SimDeadlock, SimLimit
from ..runner import Result, digest_of

PROP = "C15"

META = dict(
    engine="rtsim", level="exploration",
    rule=("1-4 sources fed over virtual time by scripted feeders (gaps 0 .. 1.5 s, event times in the past, present, "
          "future and out of order), jobs scheduled relative to now from feeders and before the run, handler durations "
          "0 .. 3 s, 0-2 idle handlers, max_concurrent in {1,2,3,50}, idle_sleep in {0.01,0.05,0.2}, timers firing "
          "late, the wall clock stepping backwards or forwards by up to 5 s in 30 % of runs. Non-trivial: a future-dated head-of-line event, an out-of-order drop and a saturated pool in the same "
          "run. Distinct by (config, per-source sequence of time classes)."),
    components=dict(real=["basana.core.dispatcher.RealtimeDispatcher", "EventMultiplexer", "SchedulerQueue",
                          "basana.core.helpers.TaskPool", "basana.core.event.FifoQueueEventSource"],
                    simulated=["feeder tasks", "handlers / jobs / idle handlers", "dt.utc_now and loop clock (virtual)",
                               "timer lateness (call_at fires up to 30 ms late)",
                               "wall-clock steps of -5 .. +5 s while the dispatcher runs (30 % of runs)"]),
    assumptions=["bounded liveness: after the feeders stop, everything due must be dispatched within the remaining "
                 "handler work (serialised by the pool) plus polling intervals plus 6 s",
                 "idle handlers take a positive amount of time (a zero-time idle handler would spin the loop without "
                 "the virtual clock advancing, which no real handler can do)"],
    probes_expected=["future_head_of_line", "out_of_order_drop", "pool_saturated", "job_in_past", "job_in_future",
                     "idle_handler_ran", "late_timer", "latency_checked", "non_utc_datetime", "wall_clock_stepped",
                     "backwards_step_with_exact_not_early_check", "handler_waiting_for_a_job_with_full_pool"],
    states_measure="distinct (events in flight, jobs in flight, idle in flight) triples at any handler entry",
)


def run(tape, prop, tier):
    res = Result()
    maxc = tape.choice([1, 2, 3, 50, 1])
    idle_sleep = tape.choice([0.05, 0.01, 0.2])
    nsrc = 1 + tape.draw(4)
    nh = [1 + tape.draw(2) for _ in range(nsrc)]
    D = 1 + tape.draw(6)
    durs = [tape.choice([0.0, 0.0, 0.05, 0.5, 3.0]) for _ in range(D)]
    nidle = tape.draw(3)
    idle_durs = [tape.choice([0.02, 0.005, 0.3]) for _ in range(nidle)]
    feeders = []
    for i in range(nsrc):
        n = 1 + tape.draw(10 if tier == "quick" else 25)
        ops = []
        for _ in range(n):
            gap = tape.choice([0.0, 0.01, 0.3, 1.5])
            delta = tape.choice([0.0, 0.0, -1.0, -5.0, 0.5, 2.0, 4.0])
            job = tape.choice([None, None, None, -2.0, 0.0, 0.5, 3.0])
            ops.append((gap, delta, job))
        feeders.append(ops)
    pre_jobs = [tape.choice([-3.0, 0.0, 1.0, 2.5]) for _ in range(tape.draw(4))]
    jdurs = [tape.choice([0.0, 0.1, 1.0]) for _ in range(4)]
    tz_shift = tape.draw(3)
    late = tape.chance(0.6)
    late_seed = tape.subseed()
    salt = tape.draw(1000)
    # wall-clock steps (NTP correction, VM resume): the realtime dispatcher reads the wall clock, not the loop clock
    steps_spec = []
    if tape.chance(0.3):
        at = 0.0
        for _ in range(1 + tape.draw(2)):
            at += tape.choice([0.2, 0.7, 1.5, 3.0])
            steps_spec.append((at, tape.choice([-5.0, -2.0, -0.5, 0.5, 5.0])))
    # one handler that cannot finish before a job scheduled 0.3 s after its event has run (an order handler waiting for
    # a confirmation, say): with at least two slots the job must get one of the others
    dep = None
    if tape.chance(0.3) and maxc >= 2:
        dep_src = tape.draw(nsrc)
        dep = (dep_src, tape.draw(len(feeders[dep_src])))
    sniff = tape.chance(0.4)            # catch-all handlers (front-running and trailing) next to the per-source ones
    res.sample = dict(wall_clock_steps=steps_spec, dependent_handler=dep, catch_all_handlers=sniff, max_concurrent=maxc, idle_sleep=idle_sleep, handlers_per_source=nh, handler_durations=durs,
                      idle_handlers=idle_durs, feeders=feeders, pre_jobs=pre_jobs, timer_lateness=late)

    tr = []
    viol = []
    S = dict(ev=0, job=0, idle=0, eid=0, max_lat=0.0)
    due_at = {}
    pushed = collections.defaultdict(list)
    entries = collections.Counter()
    reported = []
    jobs = {}
    out = {}
    steps_done = []        # (loop time, wall before, wall after)
    n_total = sum(len(ops) for ops in feeders) + len(pre_jobs) + sum(1 for ops in feeders for o in ops if o[2] is not None) + nidle + (1 if dep else 0)
    never_full = maxc > n_total

    async def main(loop):
        import basana as bs
        from basana.core import event, dt as bdt
        d = bs.realtime_dispatcher(maxc)
        d.idle_sleep = idle_sleep
        d.on_error = lambda err: reported.append(str(err))

        class SimEvent(event.Event):
            def __init__(self, when, eid, src):
                super().__init__(when)
                self.eid = eid
                self.src = src

        srcs = [event.FifoQueueEventSource() for _ in range(nsrc)]

        due_of_src = {}

        def reached(when):
            """has the wall clock reached `when` as far as the dispatcher can tell? Without a backwards step: now >= when.
            The dispatch loop reads the clock once per round; when the pool can never fill, that reading is taken at the
            very (virtual) instant the handler starts, so only a step at this same instant leaves two legal readings.
            When pushes can wait for room the reading may be as old as the longest handler: any reading since the run
            began is then accepted."""
            if bdt.utc_now() >= when:        # the comparison the dispatcher itself can make (datetimes, microseconds)
                return True
            back = [x for x in steps_done if x[2] < x[1]]
            if never_full:
                back = [x for x in back if x[0] == loop.time()]
            return any(datetime.datetime.fromtimestamp(x[1], tz=datetime.timezone.utc) >= when for x in back)

        def mkh(hid):
            async def h(ev):
                now = bdt.utc_now()
                lat = loop.wall() - due_at.get(ev.eid, loop.wall())
                if lat > S["max_lat"]:
                    S["max_lat"] = lat
                if not reached(ev.when):
                    viol.append(("event-early", f"handler entered {(ev.when - now).total_seconds():.6f} s before the "
                                                f"event's time {ev.when}"))
                tr.append(("enter", hid, ev.eid, ev.src, loop.time()))
                entries[(hid, ev.eid)] += 1
                S["ev"] += 1
                res.states.add(hash((S["ev"], S["job"], S["idle"])) & 0xffffffff)
                try:
                    if S.get("dep_eid") == ev.eid and not S.get("dep_taken"):
                        S["dep_taken"] = True
                        res.probes["handler_waiting_for_a_job"] += 1
                        if S["ev"] + S["job"] >= maxc:
                            res.probes["handler_waiting_for_a_job_with_full_pool"] += 1
                        try:
                            await asyncio.wait_for(S["dep_signal"].wait(), 40.0)
                        except asyncio.TimeoutError:
                            S["dep_timed_out"] = loop.time()
                    else:
                        await asyncio.sleep(durs[(hid * 3 + ev.eid) % D])
                finally:
                    S["ev"] -= 1
            return h
        hid = 0
        handlers_of = {}
        for i, s in enumerate(srcs):
            handlers_of[i] = []
            for _ in range(nh[i]):
                hid += 1
                handlers_of[i].append(hid)
                d.subscribe(s, mkh(hid))

        sniffed = collections.defaultdict(list)
        if sniff:
            def mk_sniffer(tag):
                async def sn(ev):
                    sniffed[tag].append(ev.eid)
                return sn
            d.subscribe_all(mk_sniffer("front"), front_run=True)
            d.subscribe_all(mk_sniffer("back"))
        out["sniffed"] = sniffed

        zones = [datetime.timezone.utc, datetime.timezone(datetime.timedelta(hours=-5)),
                 datetime.timezone(datetime.timedelta(hours=5, minutes=30))]

        def sched(delta, signal=None):
            j = len(jobs) + 1
            # the same instant, expressed in some time zone: any aware datetime is legal
            when = (bdt.utc_now() + datetime.timedelta(seconds=delta)).astimezone(zones[(j + tz_shift) % 3])
            if when.utcoffset():
                res.probes["non_utc_datetime"] += 1
            jobs[j] = dict(when=when, runs=0, dur=jdurs[j % 4])
            res.probes["job_in_past" if delta < 0 else "job_in_future" if delta > 0 else "job_now"] += 1

            async def job():
                jobs[j]["runs"] += 1
                tr.append(("job", j, loop.time()))
                if signal is not None:
                    signal.set()
                if not reached(when):
                    viol.append(("job-early", f"job scheduled for {when} ran at {bdt.utc_now()}"))
                S["job"] += 1
                res.states.add(hash((S["ev"], S["job"], S["idle"])) & 0xffffffff)
                try:
                    await asyncio.sleep(jobs[j]["dur"])
                finally:
                    S["job"] -= 1
            d.schedule(when, job)
        for k, dur in enumerate(idle_durs):
            async def idle(dur=dur, k=k):
                if S["ev"] or S["job"]:
                    viol.append(("idle-while-busy", f"idle handler entered with {S['ev']} event handlers and "
                                                    f"{S['job']} jobs in flight"))
                res.probes["idle_handler_ran"] += 1
                S["idle"] += 1
                try:
                    await asyncio.sleep(dur)
                finally:
                    S["idle"] -= 1
            d.subscribe_idle(idle)
        for delta in pre_jobs:
            sched(delta)

        async def feeder(i, ops):
            for k_, (gap, delta, job) in enumerate(ops):
                await asyncio.sleep(gap)
                S["eid"] += 1
                if dep == (i, k_):
                    S["dep_eid"] = S["eid"]
                    S["dep_signal"] = asyncio.Event()
                    sched(max(delta, 0.0) + 0.3, signal=S["dep_signal"])
                ev = SimEvent((bdt.utc_now() + datetime.timedelta(seconds=delta)).astimezone(zones[(S["eid"] + tz_shift) % 3]),
                              S["eid"], i)
                pushed[i].append(ev)
                srcs[i].push(ev)
                tr.append(("push", ev.eid, i, delta, loop.time()))
                # when is this event due at the earliest? not before it was pushed, not before its time, and not before the
                # event ahead of it in its own source (FIFO, head-of-line)
                due = max(loop.wall(), (ev.when - bdt.utc_now()).total_seconds() + loop.wall(), due_of_src.get(i, 0.0))
                due_of_src[i] = due
                due_at[ev.eid] = due
                if job is not None:
                    sched(job)
        fs = [asyncio.ensure_future(feeder(i, ops)) for i, ops in enumerate(feeders)]

        async def stepper():
            t_prev = 0.0
            for at, delta in steps_spec:
                await asyncio.sleep(at - t_prev)
                t_prev = at
                before = loop.wall()
                loop.skew += delta
                steps_done.append((loop.time(), before, loop.wall()))
                res.faults["wall_clock_step_backwards" if delta < 0 else "wall_clock_step_forwards"] += 1
                tr.append(("clock-step", delta, loop.time()))
        stp = asyncio.ensure_future(stepper())

        def model():
            exp = {}
            drops = 0
            for i in range(nsrc):
                last = None
                seq = []
                for ev in pushed[i]:
                    if last is None or ev.when >= last:
                        seq.append(ev.eid)
                        last = ev.when
                    else:
                        drops += 1
                exp[i] = seq
            return exp, drops

        def all_done():
            exp, drops = model()
            for i in range(nsrc):
                for e_ in exp[i]:
                    for h in handlers_of[i]:
                        if entries[(h, e_)] < 1:
                            return False
            return all(j["runs"] >= 1 for j in jobs.values()) and len(reported) >= drops

        async def stopper():
            await asyncio.gather(*fs)
            n_ev = sum(len(v) for v in pushed.values())
            work = sum(max(durs) for _ in range(n_ev)) + sum(j["dur"] for j in jobs.values())
            work += 0.35 * nidle * (n_ev + len(jobs))
            # what a backwards step made "not yet due" again becomes due that much later
            work += sum(-dl for _, dl in steps_spec if dl < 0) + (0.5 if dep else 0.0)
            deadline = loop.time() + 6.0 + work + 0.1 * (n_ev + len(jobs))
            out["feed_end"] = loop.time()
            while loop.time() < deadline and not all_done():
                await asyncio.sleep(0.25)
            out["live"] = all_done()
            out["deadline"] = deadline
            out["done_at"] = loop.time()
            await asyncio.sleep(1.0)       # anything delivered twice or late would show up here
            d.stop()
        st = asyncio.ensure_future(stopper())
        try:
            await d.run(stop_signals=[])
            out["o"] = "returned"
        except (Exception, asyncio.CancelledError) as e:
            out["o"] = f"raised {type(e).__name__}: {e}"
        st.cancel()
        stp.cancel()
        out["model"] = model()
        out["handlers_of"] = handlers_of
        return loop

    try:
        loop = run_sim(main, salt=salt, max_steps=3_000_000, late_seed=late_seed if late else None,
                       late_prob=0.25, late_max=0.03)
        res.vtime = loop.time()
        res.steps = loop.steps
        if loop.late_fired:
            res.faults["timer_fired_late"] += loop.late_fired
            res.probes["late_timer"] += 1
    except SimDeadlock:
        out["o"] = "deadlock"
    except SimLimit as e:
        out["o"] = f"limit {e}"

    def V(clause, msg):
        res.viol(PROP, clause, clause, msg + f" [max_concurrent={maxc} idle_sleep={idle_sleep}]")

    if out.get("o") != "returned":
        V("run-failed", f"RealtimeDispatcher.run(): {out.get('o')}")
    for c, m in viol[:1]:
        V(c, m)
    if "model" in out:
        exp, drops = out["model"]
        if not out.get("live", True):
            missing = [(i, e_) for i in range(nsrc) for e_ in exp[i]
                       if any(entries[(h, e_)] < 1 for h in out["handlers_of"][i])]
            lost_jobs = [j for j, v in jobs.items() if v["runs"] < 1]
            V("not-dispatched-once-due", f"{out['deadline'] - out['feed_end']:.1f} s after the last arrival, due events "
                                         f"{missing[:5]} / jobs {lost_jobs[:5]} were still not dispatched "
                                         f"(or drops not reported: {len(reported)}/{drops})")
        for i in range(nsrc):
            for h in out["handlers_of"][i]:
                got = [x[2] for x in tr if x[0] == "enter" and x[1] == h]
                if got != exp[i] and not res.first(PROP):
                    V("per-source-order", f"source {i} handler {h}: delivered {got}, FIFO/drop model says {exp[i]}; "
                                          f"pushed (eid, offset): {[(x[1], x[3]) for x in tr if x[0] == 'push' and x[2] == i]}")
        # with a pool that cannot fill up nothing competes for a slot: once due, an event must be dispatched within a
        # polling interval (idle_sleep or the 10 ms wait), plus timer lateness
        total_tasks = sum(len(v) for v in pushed.values()) + len(jobs) + nidle
        if S.get("dep_timed_out") is not None and not res.first(PROP):
            V("not-dispatched-once-due", f"a handler waited 40 s (until t={S['dep_timed_out']:.2f}) for a job that was due "
                                         f"0.3 s after its event, with {maxc} slots and every other handler finite")
        if steps_done:
            res.probes["wall_clock_stepped"] += 1
            if never_full and any(x[2] < x[1] for x in steps_done):
                res.probes["backwards_step_with_exact_not_early_check"] += 1
        if maxc > total_tasks and not steps_spec and not res.first(PROP):
            bound = idle_sleep + 0.05 + (0.03 * 3 if late else 0.0)
            if S["max_lat"] > bound:
                V("dispatch-latency", f"an event was dispatched {S['max_lat']:.3f} s after it became due although the pool "
                                      f"({maxc} slots, {total_tasks} tasks in the whole run) never filled up; polling bound {bound:.3f} s")
            res.probes["latency_checked"] += 1
        allowed = {e_ for i in range(nsrc) for e_ in exp[i]}
        for tag, eids in (out.get("sniffed") or {}).items():
            bad = [e_ for e_ in eids if e_ not in allowed]
            twice = [e_ for e_ in set(eids) if eids.count(e_) > 1]
            if (bad or twice) and not res.first(PROP):
                V("per-source-order", f"{tag} catch-all handler received events {bad[:5]} that were to be dropped as out of order "
                                      f"/ received {twice[:5]} more than once")
            res.probes["catch_all_handlers"] += 1
        if len(reported) != drops and not res.first(PROP):
            V("drop-report", f"{len(reported)} out-of-order reports, model says {drops} events were dropped")
        for j, v in jobs.items():
            if v["runs"] > 1:
                V("job-ran-twice", f"job {j} ran {v['runs']} times")
                break
        if drops:
            res.probes["out_of_order_drop"] += 1
    # probes
    hol = False
    for i, ops in enumerate(feeders):
        for k, (gap, delta, job) in enumerate(ops[:-1]):
            if delta >= 2.0:
                hol = True
    if hol:
        res.probes["future_head_of_line"] += 1
    sat = sum(len(v) for v in pushed.values()) > maxc and maxc <= 3
    if sat:
        res.probes["pool_saturated"] += 1
    res.nontrivial = bool(hol and res.probes["out_of_order_drop"] and sat)
    res.sig = digest_of((maxc, idle_sleep, nidle, [[(g, dl) for g, dl, _ in ops] for ops in feeders]))
    res.stats["events"] += sum(len(v) for v in pushed.values())
    res.stats["jobs"] += len(jobs)
    res.stats["drops"] += out["model"][1] if "model" in out else 0
    res.digest = digest_of((tr, reported, out.get("o")))
    return res
