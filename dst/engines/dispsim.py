"""C12 / C13 - backtesting dispatcher: global order, exactly-once, scheduled jobs.

Real code: BacktestingDispatcher, EventMultiplexer, SchedulerQueue, TaskPool,
TaskGroup, FifoQueueEventSource, logs.backtesting_log_mode.
Simulated: sources' contents, handlers, jobs (all scripted from the tape), loop.
"""
import asyncio
import functools
import collections
import datetime

from ..loop import run_sim, SimDeadlock, SimLimit, UTC
from ..runner import Result, digest_of

T0 = datetime.datetime(2020, 1, 1, tzinfo=UTC)

_COMPONENTS = dict(
    real=["basana.core.dispatcher.BacktestingDispatcher", "EventMultiplexer", "SchedulerQueue",
          "basana.core.helpers.TaskPool", "TaskGroup", "basana.core.event.FifoQueueEventSource",
          "basana.core.logs.backtesting_log_mode"],
    simulated=["event sources' contents", "handlers / jobs (scripted: suspensions, sleeps, exceptions, pushes to "
               "derived sources, scheduling)", "event loop and clock", "task / producer hash order"])

META = {
    "C12": dict(
        engine="dispsim", level="exploration", components=_COMPONENTS,
        rule=("1-6 preloaded sources with generated timestamp patterns (ties inside and across sources), 0-2 derived "
              "sources fed by handlers, 1-3 handlers per source incl. duplicate subscriptions, 0-2 front-running and "
              "0-2 trailing catch-alls, max_concurrent in {1,2,3,#sources,50}, handlers with 0-3 suspension points "
              "(sleep(0) or timed) and exceptions, jobs. Non-trivial: cross-source tie with more same-time events than "
              "pool slots and at least one derived event. Distinct by schedule signature (hash of the sequence of "
              "handler entries/exits)."),
        assumptions=["sources yield non-decreasing times and derived events are stamped >= now (the statement's premise)",
                     "handlers are observed through their own entry/exit records; the dispatcher is not instrumented"],
        probes_expected=["pool_saturated", "cross_source_tie", "derived_event", "handler_raised", "dup_subscription",
                         "dup_subscription_bound_method", "handler_raised_synchronously"],
        states_measure="distinct (events in flight, handlers in flight, pool size) triples at handler entry"),
    "C13": dict(
        engine="dispsim", level="exploration", components=_COMPONENTS,
        rule=("jobs scheduled before the run, from handlers and from jobs, with times in the past, between events, "
              "equal to event times and beyond the last event, in generated insertion orders; some raise. "
              "Non-trivial: >=3 jobs pending together that were inserted in non-ascending time order with one beyond "
              "the last event. Distinct by (job time ranks in insertion order, schedule signature)."),
        assumptions=["all runs end by exhaustion of the sources (stop paths belong to C14)",
                     "a job scheduled after the last event's handling finished is exempt from 'must run'"],
        probes_expected=["job_beyond_last_event", "job_nonascending_insert", "job_from_job", "job_from_handler",
                         "job_raised", "job_in_past", "job_equal_event_time"],
        states_measure="distinct (pending jobs, events in flight) pairs at job entry"),
}


class Ev:
    pass


def _mk_event_class(value_equality=False):
    from basana.core import event

    class SimEvent(event.Event):
        def __init__(self, when, eid, src):
            super().__init__(when)
            self.eid = eid
            self.src = src

    if not value_equality:
        return SimEvent

    class ValueEvent(SimEvent):
        # like a dataclass event whose payload happens to repeat: two ticks of one source at one instant compare equal
        def __eq__(self, other):
            return isinstance(other, SimEvent) and (self.when, self.src) == (other.when, other.src)

        def __hash__(self):
            return hash((self.when, self.src))
    return ValueEvent


def t(s):
    return T0 + datetime.timedelta(seconds=s)


def run(tape, prop, tier):
    res = Result()
    big = tier == "thorough" and tape.chance(0.3)
    nsrc = 1 + tape.draw(6)
    nder = tape.draw(3)
    maxc = tape.choice([1, 2, 3, nsrc, nsrc + 1, 50, 1])
    horizon = tape.choice([3, 8, 20, 60])
    tie_bias = tape.draw(3)          # 0: spread, 1: many ties, 2: all on few instants
    src_times = []
    for i in range(nsrc):
        n = tape.draw(9 if not big else 40)
        if tie_bias == 2:
            ts = sorted(tape.draw(3) * (horizon // 3 or 1) for _ in range(n))
        elif tie_bias == 1:
            ts = sorted(tape.draw(max(2, horizon // 2)) * 2 for _ in range(n))
        else:
            ts = sorted(tape.draw(horizon + 1) for _ in range(n))
        src_times.append(ts)
    # handler table
    nh = []
    for i in range(nsrc + nder):
        k = 1 + tape.draw(3)
        nh.append([(tape.chance(0.25),) for _ in range(k)])   # (duplicate subscription?)
    npre = tape.draw(3)
    npost = tape.draw(3)
    K = 1 + tape.draw(12)
    beh = []
    for _ in range(K):
        nsusp = tape.draw(4)
        sleeps = [tape.choice([0.0, 0.0, 0.7, 1.5]) for _ in range(nsusp)]
        beh.append(dict(sleeps=sleeps,
                        boom=tape.chance(0.15),
                        push=tape.chance(0.3), push_k=tape.draw(2), push_dt=tape.choice([0, 0, 1, 3]),
                        sched=tape.chance(0.2 if prop == "C12" else 0.35),
                        sched_at=tape.draw(horizon + 12), sched_row=tape.draw(8)))
    J = 1 + tape.draw(8)
    jbeh = []
    for _ in range(J):
        nsusp = tape.draw(3)
        jbeh.append(dict(sleeps=[tape.choice([0.0, 0.0, 1.5]) for _ in range(nsusp)],
                         boom=tape.chance(0.2), boom_cancelled=tape.chance(0.3), spawn=tape.chance(0.3),
                         spawn_at=tape.draw(horizon + 12), spawn_row=tape.draw(8)))
    npre_jobs = tape.draw(9 if prop == "C13" else 4)
    pre_jobs = [(tape.int(-5, horizon + 15), tape.draw(8)) for _ in range(npre_jobs)]
    salt = tape.draw(1000)
    # timestamps that differ only below the millisecond: each source at its own offset of a few hundred microseconds
    fine_times = tape.chance(0.2)
    eq_events = tape.chance(0.15)

    res.sample = dict(sub_millisecond_offsets=fine_times, sources=src_times, derived=nder, max_concurrent=maxc, handlers_per_source=[len(x) for x in nh],
                      front_runners=npre, trailing=npost, behaviours=beh[:4], pre_jobs=pre_jobs)

    trace = []
    viol = []
    st = dict(seq=0, eid=0, jid=0, inflight_ev=set(), inflight_h=0)
    all_events = {}
    jobs = {}
    subs = collections.defaultdict(list)
    pres, posts = [], []
    outcome = {}

    async def main(loop):
        import basana as bs
        from basana.core import event
        SimEvent = _mk_event_class(eq_events)
        d = bs.backtesting_dispatcher(max_concurrent=maxc)

        def rec(*a):
            st["seq"] += 1
            trace.append((st["seq"],) + a)

        srcs = []
        for i, ts in enumerate(src_times):
            evs = []
            for x in ts:
                st["eid"] += 1
                ev = SimEvent(t(x) + datetime.timedelta(microseconds=(i * 137) % 1000 if fine_times else 0), st["eid"], i)
                evs.append(ev)
                all_events[ev.eid] = ev
            srcs.append(event.FifoQueueEventSource(events=evs))
        ders = [event.FifoQueueEventSource() for _ in range(nder)]
        last_push = [None] * nder

        def sched(when_s, row, origin):
            if st["jid"] >= 40:
                return
            st["jid"] += 1
            j = st["jid"]
            b = jbeh[row % J]
            clock = d.now() if d.now_available else None
            jobs[j] = dict(when=t(when_s), sched_clock=clock, origin=origin, runs=0, sched_seq=st["seq"], boom=b["boom"],
                           expected=1)

            async def job():
                jobs[j]["runs"] += 1
                rec("job_enter", j, d.now())
                res.states.add(hash(("j", sum(1 for x in jobs.values() if x["runs"] == 0), len(st["inflight_ev"]))) & 0xffffffff)
                for s in b["sleeps"]:
                    await asyncio.sleep(s)
                if b["spawn"]:
                    res.probes["job_from_job"] += 1
                    sched(b["spawn_at"], b["spawn_row"], "job")
                rec("job_exit", j, d.now())
                if b["boom"]:
                    res.probes["job_raised"] += 1
                    res.faults["job_exception"] += 1
                    if b["boom_cancelled"]:
                        # e.g. a job that cancels a helper task and awaits it unguarded
                        res.probes["job_raised_cancelled_error"] += 1
                        raise asyncio.CancelledError()
                    raise RuntimeError("job boom")
            # any callable returning an awaitable is a legal job: plain coroutine functions, partials, callable objects -
            # and a plain function may fail before it has anything to return
            if b["boom"] and not b["sleeps"] and not b["spawn"] and not b["boom_cancelled"] and j % 2 == 0:
                def job_sync():
                    jobs[j]["runs"] += 1
                    rec("job_enter", j, d.now())
                    rec("job_exit", j, d.now())
                    res.probes["job_raised"] += 1
                    res.probes["job_raised_synchronously"] += 1
                    res.faults["job_exception"] += 1
                    raise KeyError("job boom before there is anything to await")
                d.schedule(t(when_s), job_sync)
            elif j % 3 == 1:
                d.schedule(t(when_s), functools.partial(_call_with, job))
            elif j % 3 == 2:
                d.schedule(t(when_s), CallableObject(job))
            else:
                d.schedule(t(when_s), job)
                if row % 5 == 4 and not b["spawn"]:
                    # the very same callable scheduled once more for the very same instant (a shared "rebalance" that two
                    # handlers of one instant both ask for): scheduled twice, it runs twice
                    d.schedule(t(when_s), job)
                    jobs[j]["expected"] = 2
                    res.probes["same_job_scheduled_twice_for_one_instant"] += 1

        def mk_handler(hid, kind):
            async def h(ev):
                b = beh[(hid * 31 + ev.eid * 7) % K]
                rec("enter", kind, hid, ev.eid, ev.when, d.now())
                st["inflight_h"] += 1
                st["inflight_ev"].add(ev.eid)
                res.states.add(hash((len(st["inflight_ev"]), st["inflight_h"], maxc)) & 0xffffffff)
                try:
                    if d.now() != ev.when:
                        viol.append(("clock-not-event-time", f"now()={d.now()} != event.when={ev.when} at entry"))
                    for s in b["sleeps"]:
                        await asyncio.sleep(s)
                        if s:
                            res.faults["handler_timed_suspension"] += 1
                        else:
                            res.faults["handler_yield"] += 1
                        if d.now() != ev.when:
                            viol.append(("clock-not-event-time",
                                         f"now()={d.now()} != event.when={ev.when} after resumption"))
                    if kind == "src" and nder and b["push"] and st["eid"] < 300:
                        k = b["push_k"] % nder
                        w = ev.when + datetime.timedelta(seconds=b["push_dt"])
                        if last_push[k] is not None and w < last_push[k]:
                            w = last_push[k]
                        last_push[k] = w
                        st["eid"] += 1
                        nev = SimEvent(w, st["eid"], nsrc + k)
                        all_events[nev.eid] = nev
                        ders[k].push(nev)
                        res.probes["derived_event"] += 1
                    if b["sched"]:
                        res.probes["job_from_handler"] += 1
                        sched(b["sched_at"], b["sched_row"], "handler")
                    rec("exit", kind, hid, ev.eid, ev.when, d.now())
                finally:
                    st["inflight_h"] -= 1
                if b["boom"]:
                    res.probes["handler_raised"] += 1
                    res.faults["handler_exception"] += 1
                    raise RuntimeError("handler boom")
            return h

        class Strategy:
            """handlers as bound methods: each attribute access yields a new, equal, not identical callable"""
            def __init__(self, fn):
                self._fn = fn

            async def on_event(self, ev):
                await self._fn(ev)

        class CallableObject:
            """an object with an async __call__ (no __name__ / __qualname__ of its own)"""
            def __init__(self, fn):
                self._fn = fn

            async def __call__(self, *a):
                return await self._fn(*a)

        async def _call_with(fn, *a):
            return await fn(*a)

        def sync_raiser(hid, h):
            # a plain callable that returns an awaitable is a legal handler; this one validates its input first and may
            # raise before there is anything to await
            def call(ev):
                b = beh[(hid * 31 + ev.eid * 7) % K]
                if b["boom"] and not b["sleeps"]:
                    rec("enter", "src", hid, ev.eid, ev.when, d.now())
                    rec("exit", "src", hid, ev.eid, ev.when, d.now())
                    res.probes["handler_raised_synchronously"] += 1
                    res.faults["handler_exception"] += 1
                    raise KeyError("validating wrapper boom")
                return h(ev)
            return call

        hid = 0
        for i, s in enumerate(srcs + ders):
            for (dup,) in nh[i]:
                hid += 1
                h = mk_handler(hid, "src")
                subs[i].append(hid)
                if hid % 7 in (4, 6):
                    hh = functools.partial(_call_with, h) if hid % 7 == 4 else CallableObject(h)
                    res.probes["handler_is_partial_or_callable_object"] += 1
                    d.subscribe(s, hh)
                    if dup:
                        d.subscribe(s, hh)
                        res.probes["dup_subscription"] += 1
                    continue
                if hid % 5 == 3:
                    d.subscribe(s, sync_raiser(hid, h))
                    continue
                if hid % 2 == 0:
                    st_ = Strategy(h)
                    d.subscribe(s, st_.on_event)
                    if dup:
                        d.subscribe(s, st_.on_event)
                        res.probes["dup_subscription_bound_method"] += 1
                    continue
                d.subscribe(s, h)
                if dup:
                    d.subscribe(s, h)
                    res.probes["dup_subscription"] += 1
        for k_ in range(npre):
            hid += 1
            pres.append(hid)
            st_ = Strategy(mk_handler(hid, "pre"))
            d.subscribe_all(st_.on_event, front_run=True)
            if k_ == 0 and nh[0][0][0]:
                d.subscribe_all(st_.on_event, front_run=True)      # duplicate catch-all subscription
        for k_ in range(npost):
            hid += 1
            posts.append(hid)
            st_ = Strategy(mk_handler(hid, "post"))
            d.subscribe_all(st_.on_event)
            if k_ == 0 and nh[0][0][0]:
                d.subscribe_all(st_.on_event)
        for when_s, row in pre_jobs:
            sched(when_s, row, "pre")
        try:
            await d.run(stop_signals=[])
            outcome["r"] = "returned"
        except (Exception, asyncio.CancelledError) as e:      # the run must end by itself without error
            outcome["r"] = f"raised {type(e).__name__}: {e}"
        return loop

    try:
        loop = run_sim(main, salt=salt, max_steps=300_000)
        res.vtime = loop.time()
        res.steps = loop.steps
    except SimDeadlock:
        outcome["r"] = "deadlock"
    except SimLimit as e:
        outcome["r"] = f"limit {e}"

    def V(prop_, clause, msg):
        res.viol(prop_, clause, clause, msg + f" [max_concurrent={maxc}]")

    if fine_times:
        res.probes["sub_millisecond_offsets"] += 1
    if eq_events:
        res.probes["events_with_value_equality"] += 1
    if outcome["r"] != "returned":
        V("C12", "run-did-not-end", f"run() of a finite backtest: {outcome['r']}")
        V("C13", "run-did-not-end", f"run() of a finite backtest: {outcome['r']}")
    for c, m in viol[:1]:
        V("C12", c, m)

    # -------- C12
    cnt = collections.Counter((x[2], x[3], x[4]) for x in trace if x[1] == "enter")
    expected = 0
    done_c12 = bool(res.first("C12"))
    for e_ in all_events.values():
        want = subs[e_.src]
        expected += len(want) + len(pres) + len(posts)
        if done_c12:
            continue
        for h_ in want:
            if cnt[("src", h_, e_.eid)] != 1:
                V("C12", "exactly-once", f"handler {h_} got event {e_.eid} (source {e_.src}, t={e_.when.time()}) "
                                         f"{cnt[('src', h_, e_.eid)]} times")
                done_c12 = True
                break
        for h_ in pres:
            if not done_c12 and cnt[("pre", h_, e_.eid)] != 1:
                V("C12", "exactly-once", f"front-running catch-all {h_} got event {e_.eid} {cnt[('pre', h_, e_.eid)]} times")
                done_c12 = True
        for h_ in posts:
            if not done_c12 and cnt[("post", h_, e_.eid)] != 1:
                V("C12", "exactly-once", f"catch-all {h_} got event {e_.eid} {cnt[('post', h_, e_.eid)]} times")
                done_c12 = True
    if not done_c12 and sum(cnt.values()) != expected:
        V("C12", "exactly-once", f"{sum(cnt.values())} deliveries, {expected} expected")
    lastw = None
    lastnow = None
    for x in trace:
        now = x[-1]
        if lastnow is not None and now < lastnow:
            V("C12", "clock-backwards", f"dispatcher clock went from {lastnow} to {now}")
            break
        lastnow = now
        if x[1] == "enter":
            if lastw is not None and x[5] < lastw:
                V("C12", "global-order", f"event at {x[5]} delivered after event at {lastw}")
                break
            lastw = x[5]
    per = collections.defaultdict(list)
    for x in trace:
        if x[1] in ("enter", "exit"):
            per[x[4]].append(x)
    for eid_, xs in per.items():
        pre_exit = [x[0] for x in xs if x[1] == "exit" and x[2] == "pre"]
        pre_enter = [x[0] for x in xs if x[1] == "enter" and x[2] == "pre"]
        src_enter = [x for x in xs if x[1] == "enter" and x[2] == "src"]
        src_exit = [x[0] for x in xs if x[1] == "exit" and x[2] == "src"]
        post_enter = [x[0] for x in xs if x[1] == "enter" and x[2] == "post"]
        first_src = min((x[0] for x in src_enter), default=None)
        # raising handlers have no exit record: use the enter of the stage before as a lower bound too
        if first_src is not None and (pre_exit or pre_enter) and max(pre_exit + pre_enter) > first_src:
            V("C12", "stage-order", f"event {eid_}: a front-running handler was still running when a source handler started")
            break
        if post_enter and (src_exit or src_enter) and max(src_exit + [x[0] for x in src_enter]) > min(post_enter):
            V("C12", "stage-order", f"event {eid_}: a catch-all started before the source handlers finished")
            break
        if post_enter and (pre_exit or pre_enter) and max(pre_exit + pre_enter) > min(post_enter):
            V("C12", "stage-order", f"event {eid_}: a catch-all started before the front-runners finished")
            break
        if [x[3] for x in src_enter] != subs[all_events[eid_].src]:
            V("C12", "subscription-order", f"event {eid_}: handlers entered {[x[3] for x in src_enter]}, subscribed {subs[all_events[eid_].src]}")
            break
    # probes / non-triviality for C12
    by_time = collections.Counter(e_.when for e_ in all_events.values())
    by_time_src = collections.defaultdict(set)
    for e_ in all_events.values():
        by_time_src[e_.when].add(e_.src)
    sat = any(n > maxc for n in by_time.values())
    tie = any(len(s) > 1 for s in by_time_src.values())
    if sat:
        res.probes["pool_saturated"] += 1
    if tie:
        res.probes["cross_source_tie"] += 1

    # -------- C13
    last_event_exit = max([x[0] for x in trace if x[1] in ("exit", "enter")], default=0)
    job_enters = [x for x in trace if x[1] == "job_enter"]
    last_event_time = max((e_.when for e_ in all_events.values()), default=None)
    done = False
    for j, info in jobs.items():
        must = info["sched_seq"] <= last_event_exit
        if info["runs"] > info["expected"]:
            V("C13", "job-ran-twice", f"job {j} (t={info['when'].time()}) ran {info['runs']} times")
            done = True
            break
        if must and info["runs"] != info["expected"] and outcome["r"] == "returned":
            V("C13", "job-never-ran",
              f"job {j} scheduled for {info['when']} from {info['origin']} never ran; all jobs (time, runs, origin): "
              f"{[(str(v['when'].time()), v['runs'], v['origin']) for v in jobs.values()]}; last event {last_event_time}")
            done = True
            break
    if not done:
        for x in job_enters:
            info = jobs[x[2]]
            if x[3] < info["when"]:
                V("C13", "job-early", f"job for {info['when']} ran with clock {x[3]}")
                done = True
                break
            bound = max(info["when"], info["sched_clock"] or info["when"])
            for y in trace:
                if y[1] == "enter" and y[0] < x[0] and y[5] > bound:
                    V("C13", "job-after-later-event", f"job for {info['when']} (scheduled at clock {info['sched_clock']}) "
                                                      f"ran after a handler of the event at {y[5]} had started")
                    done = True
                    break
                if y[1] == "exit" and y[0] > x[0] and y[5] < info["when"]:
                    V("C13", "job-before-earlier-event", f"job for {info['when']} ran before the event at {y[5]} was handled")
                    done = True
                    break
            if done:
                break
    if not done:
        for ai, a in enumerate(job_enters):
            for b in job_enters[ai + 1:]:
                if jobs[a[2]]["when"] > jobs[b[2]]["when"] and jobs[b[2]]["sched_seq"] < a[0]:
                    V("C13", "job-order", f"job for {jobs[a[2]]['when']} ran before pending job for {jobs[b[2]]['when']}")
                    done = True
                    break
            if done:
                break
    # probes
    pre = [v for v in jobs.values() if v["origin"] == "pre"]
    whens = [v["when"] for v in pre]
    if last_event_time is not None and any(w > last_event_time for w in (v["when"] for v in jobs.values())):
        res.probes["job_beyond_last_event"] += 1
    if any(whens[i] > whens[i + 1] for i in range(len(whens) - 1)):
        res.probes["job_nonascending_insert"] += 1
    if any(v["when"] < T0 for v in jobs.values()):
        res.probes["job_in_past"] += 1
    if any(v["when"] in by_time for v in jobs.values()):
        res.probes["job_equal_event_time"] += 1

    sched_sig = digest_of([(x[1], x[2], x[3]) for x in trace])
    if prop == "C12":
        res.nontrivial = sat and tie and res.probes["derived_event"] > 0
        res.sig = sched_sig
    else:
        res.nontrivial = (len(pre) >= 3 and res.probes["job_nonascending_insert"] > 0
                          and res.probes["job_beyond_last_event"] > 0)
        res.sig = digest_of(([v["when"] for v in jobs.values()], sched_sig))
    res.stats["events"] += len(all_events)
    res.stats["jobs"] += len(jobs)
    res.stats["handler_entries"] += sum(cnt.values())
    res.digest = digest_of(trace)
    return res
