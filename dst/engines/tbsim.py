"""C20 - token bucket under a virtual clock.

Real code: basana.core.token_bucket.TokenBucketLimiter (consume, wait, tokens).
Simulated: callers (tasks), the clock (time.time -> SimLoop.wall), wall-clock
step faults. Timers are exact here (the statement presumes callers wait exactly
the returned time).
"""
import asyncio
from fractions import Fraction as F

from ..loop import run_sim
from ..runner import Result, digest_of

PROP = "C20"

META = dict(
    engine="tbsim",
    level="exploration",
    rule=("seeded configurations (tokens/period incl. fractional, period, initial tokens) x seeded arrival "
          "processes (bursts, idle gaps, overload, 1-6 concurrent caller tasks using consume()+sleep or wait()); "
          "a run is non-trivial if the bucket went into debt and later refilled to capacity; distinct by "
          "(config, caller count, sequence of burst sizes and gap classes)"),
    components=dict(real=["basana.core.token_bucket.TokenBucketLimiter", "binance.client.APIClient / bitstamp.client.APIClient "
                          "throttled through a shared bucket (20% of runs, zero-latency simulated network)"],
                    simulated=["caller tasks", "time.time (virtual wall clock)", "wall-clock step faults", "REST peers"]),
    assumptions=["timers fire exactly on time in this engine (callers wait exactly the returned time)",
                 "rate bound and exact-delay clauses are asserted only in runs without wall-clock steps",
                 "float tolerance 1e-9 relative on waits"],
    probes_expected=["debt_then_full", "burst_over_capacity", "idle_gap_refill_capped", "initial_gt_capacity",
                     "client_requests_on_wire", "client_throttled"],
    states_measure="distinct (tokens level bucket, in-debt flag, pending waiters) triples seen after a consume",
)

TPP = [1, 2, 5, 10, F(1, 2), F(5, 2), F(1, 3), 100, 1200, F(7, 10)]
PERIOD = [1, 2, 10, 60]


def run(tape, prop, tier):
    if tape.chance(0.2):
        return run_clients(tape, prop, tier)
    return run_bucket(tape, prop, tier)


def run_clients(tape, prop, tier):
    """The limiter as its users drive it: the real Binance and Bitstamp REST clients share one bucket and send over a
    zero-latency simulated network, so the first byte of each request is on the wire exactly when the client has
    finished waiting. The rate bound is then checked on what the peer sees."""
    import random
    res = Result()
    tpp = tape.choice([1, 2, 5, 10, F(5, 2)])
    period = tape.choice([1, 2, 10])
    initial = tape.choice([0, 1, int(tpp), int(tpp) + 3])
    ncalls = 2 + tape.draw(25)
    starts = [tape.choice([0.0, 0.0, 0.0, 0.1, 1.0, float(period) * 3]) for _ in range(ncalls)]
    which = [tape.draw(4) for _ in range(ncalls)]
    # the peer answers some requests with an error (the n-th request it receives gets replies[n])
    replies = [tape.choice([200, 200, 200, 400, 500, 502, 503, 504]) for _ in range(ncalls)]
    res.sample = dict(kind="clients", replies=replies[:12], tokens_per_period=str(tpp), period=period, initial=initial, calls=ncalls,
                      start_delays=starts[:10])
    cap = max(F(tpp), F(initial))
    rate = F(tpp) / period
    first = []
    waits = []

    async def main(loop):
        import aiohttp
        from aiohttp import web
        from basana.core import token_bucket
        from basana.external.binance import client as bcli
        from basana.external.bitstamp import client as scli
        from ..net import SimNet, SimConnector

        seen = [0]

        async def handler(request):
            await request.read()
            st = replies[seen[0] % len(replies)]
            seen[0] += 1
            if st != 200:
                res.faults[f"error_reply_{st}"] += 1
                if st >= 502:
                    return web.Response(status=st, text="<html>gateway error</html>", content_type="text/html")
                return web.json_response({"code": -1003, "msg": "simulated", "status": "error", "reason": "simulated"}, status=st)
            return web.json_response({"ok": True, "bids": [], "asks": [], "lastUpdateId": 1})
        server = web.Server(handler)
        net = SimNet(loop, random.Random(1), {"binance.sim": server, "bitstamp.sim": server}, min_latency=0.0, jitter=0.0)
        sess = aiohttp.ClientSession(connector=SimConnector(net))
        tb = token_bucket.TokenBucketLimiter(float(tpp) if isinstance(tpp, F) else tpp, period, initial)
        real = tb.consume

        def spy():
            w = real()
            waits.append(w)
            if not (w >= 0):
                res.viol(PROP, "negative-wait", "consume() returned a negative time", f"consume() returned {w!r}")
            return w
        tb.consume = spy
        b = bcli.APIClient("k", "s", session=sess, tb=tb, config_overrides={"api": {"http": {"base_url": "http://binance.sim/"}}})
        s_ = scli.APIClient("k", "s", session=sess, tb=tb, config_overrides={"api": {"http": {"base_url": "http://bitstamp.sim/"}}})

        async def one(i):
            await asyncio.sleep(starts[i])
            try:
                if which[i] == 0:
                    await b.get_order_book("BTCUSDT")
                elif which[i] == 1:
                    await s_.get_ticker("btcusd")
                elif which[i] == 2:
                    await b.spot_account.get_account_information()
                else:
                    await s_.get_account_balances()
            except Exception:
                pass
        await asyncio.gather(*[one(i) for i in range(ncalls)])
        await sess.close()
        await server.shutdown(0.5)
        for conn in net.conns:
            # one HTTP request = bytes up to the blank line; requests on a kept-alive connection start with a method
            for side, t, data in conn.log:
                if side == "c" and data[:4] in (b"GET ", b"POST", b"PUT ", b"DELE"):
                    first.append(t)
        return loop
    loop = run_sim(main, salt=0, max_steps=400_000)
    res.vtime = loop.time()
    res.steps = loop.steps
    s = sorted(first)
    res.stats["client_requests"] += len(s)
    res.probes["client_requests_on_wire"] += 1 if s else 0
    if len(s) < ncalls:
        res.viol(PROP, "request-missing", "a throttled client call sent no request", f"{len(s)} requests on the wire for {ncalls} calls")
    if len(s) > len(waits):
        res.viol(PROP, "request-without-token", "a client sent a request without taking a token",
                 f"{len(s)} requests on the wire, consume() was called {len(waits)} times ({ncalls} calls; replies {replies[:len(s)]})")
    n = len(s)
    for i in range(n):
        bad = False
        for j in range(i, n):
            cnt = j - i + 1
            if cnt > float(cap) + float(rate) * (s[j] - s[i] + 1e-6) + 1:
                res.viol(PROP, "rate-bound", "more requests on the wire in a window than capacity + rate*L + 1",
                         f"{cnt} requests sent by the Binance/Bitstamp clients in [{s[i]}, {s[j]}] > {float(cap)} + "
                         f"{float(rate)}*{s[j] - s[i]} + 1 (tokens/period={tpp}, period={period}, initial={initial})")
                bad = True
                break
        if bad:
            break
    if any(w > 0 for w in waits):
        res.probes["client_throttled"] += 1
        res.nontrivial = True
    res.sig = digest_of(("clients", str(tpp), period, initial, ncalls, tuple(starts), tuple(which)))
    res.digest = digest_of((s, waits))
    return res


def run_bucket(tape, prop, tier):
    res = Result()
    tpp = tape.choice(TPP)
    period = tape.choice(PERIOD)
    init_kind = tape.draw(4)        # 0: zero, 1: some, 2: capacity, 3: above capacity
    if init_kind == 0:
        initial = 0
    elif init_kind == 1:
        initial = max(1, int(tpp) // 2)
    elif init_kind == 2:
        initial = tpp
    else:
        initial = int(tpp) + 1 + tape.draw(20)
        res.probes["initial_gt_capacity"] += 1
    ncallers = 1 + tape.draw(6)
    steps_fault = tape.chance(0.2)
    # scripts: per caller a list of (gap class, burst size, mode)
    gap_unit = float(period) / float(tpp)     # time to earn one token
    scripts = []
    for c in range(ncallers):
        n = 1 + tape.draw(12 if tier == "quick" else 30)
        ops = []
        for _ in range(n):
            gk = tape.weighted([(4, "none"), (3, "short"), (2, "unit"), (2, "long"), (1, "huge")])
            burst = 1 + tape.weighted([(5, 0), (2, 1), (2, 4), (1, 15)])
            mode = tape.draw(2)       # 0: consume + sleep, 1: wait()
            frac = tape.draw(1000)
            step = 0
            if steps_fault and tape.chance(0.3):
                step = tape.choice([-3600.0, -1.0, -0.001, 0.5, 86400.0])
            ops.append((gk, burst, mode, frac, step))
        scripts.append(ops)
    # a monitoring task that reads the `tokens` property now and then (reading must not change anything)
    monitor = tape.chance(0.3)
    res.sample = dict(tokens_per_period=str(tpp), period=period, initial=str(initial), callers=ncallers,
                      clock_steps=steps_fault, monitor_reads_tokens=monitor, scripts=[[list(map(str, o)) for o in s[:6]] for s in scripts[:3]])
    cap = F(tpp)
    rate = F(tpp) / period
    trace = []
    sends = []

    async def main(loop):
        from basana.core import token_bucket
        tb = token_bucket.TokenBucketLimiter(float(tpp) if isinstance(tpp, F) else tpp, period, initial)
        model = dict(L=F(initial), last=F(loop.wall()), ambiguous=(F(initial) > cap), debt=False, pending=0)
        t_create = loop.wall()

        real_consume = tb.consume

        def spy():
            now = F(loop.wall())
            w = real_consume()
            trace.append(("c", loop.time(), w))
            res.stats["consumes"] += 1
            if not (w >= 0):
                res.viol(PROP, "negative-wait", "consume() returned a negative time",
                         f"consume() returned {w!r} (tpp={tpp}, period={period}, initial={initial})")
            if steps_fault:
                return w
            m = model
            L = m["L"] + rate * (now - m["last"])
            if L >= cap:
                if m["debt"]:
                    res.probes["debt_then_full"] += 1
                    res.nontrivial = True
                    m["debt"] = False
                if now - m["last"] > 3 * period:
                    res.probes["idle_gap_refill_capped"] += 1
            # while initial > capacity the statement leaves the level open: accept both readings
            cands = [min(L, cap)]
            if m["ambiguous"]:
                cands.append(L)
            m["last"] = now
            okay = False
            for Lc in cands:
                L2 = Lc - 1
                exp = max(F(0), -L2) / rate
                if abs(F(w) - exp) <= F(1, 10**9) * max(1, exp):
                    okay = True
                    m["L"] = L2
                    break
            if not okay:
                exp = max(F(0), -(cands[0] - 1)) / rate
                res.viol(PROP, "wrong-delay", "returned delay differs from max(0,k-a)/rate",
                         f"consume() at t={loop.time()} returned {w!r}, model expects {float(exp)!r} "
                         f"(level before={float(cands[0])}, tpp={tpp}, period={period}, initial={initial})")
                m["L"] = cands[0] - 1
            m["ambiguous"] = False
            if m["L"] < 0:
                m["debt"] = True
            # tokens property (integer part of the level), away from integer boundaries
            lv = m["L"]
            if abs(lv - round(lv)) > F(1, 10**6):
                want = max(int(lv) if lv >= 0 else 0, 0)
                if tb.tokens != want:
                    res.viol(PROP, "tokens-mismatch", "tokens property differs from the refill model",
                             f"tokens={tb.tokens} model level={float(lv)}")
            res.states.add(hash((min(int(lv), 50) if lv >= 0 else max(int(lv), -50), m["debt"])) & 0xffffffff)
            return w

        tb.consume = spy

        async def caller(cid, ops):
            for gk, burst, mode, frac, step in ops:
                gap = dict(none=0.0, short=gap_unit * frac / 4000.0, unit=gap_unit * (1 + frac / 1000.0),
                           long=period * (1 + frac / 250.0), huge=period * 20.0)[gk]
                if gap:
                    await asyncio.sleep(gap)
                if step:
                    loop.skew += step
                    res.faults["wall_clock_step"] += 1
                if burst > int(cap) + 1:
                    res.probes["burst_over_capacity"] += 1
                for _ in range(burst):
                    if mode == 0:
                        w = tb.consume()
                        # "every caller waits the time the limiter returns before sending"
                        loop.call_later(max(w, 0.0), lambda: sends.append(loop.time()))
                    else:
                        async def waiter():
                            await tb.wait()
                            sends.append(loop.time())
                        # several wait() callers pending at once
                        wt = asyncio.ensure_future(waiter())
                        waiters.append(wt)
                        await asyncio.sleep(0)
                        if frac % 7 == 0 and not wt.done():
                            # the caller gives up while it waits (its token stays consumed: nothing is sent in its slot)
                            loop.call_later(gap_unit * (frac % 5) / 10.0, wt.cancel)
                            res.faults["waiter_cancelled"] += 1
        waiters = []

        async def monitoring():
            n_ = 0
            while n_ < 3000:
                await asyncio.sleep(gap_unit * 0.37)
                tb.tokens
                n_ += 1
            res.probes["tokens_read_by_monitor"] += 1
        mt = asyncio.ensure_future(monitoring()) if monitor else None
        await asyncio.gather(*[caller(i, s) for i, s in enumerate(scripts)])
        if mt is not None:
            mt.cancel()
            res.probes["monitor_ran"] += 1
        if waiters:
            await asyncio.gather(*waiters, return_exceptions=True)
        await asyncio.sleep(float(period) * 50 + 10)     # let every delayed send happen
        return t_create

    try:
        run_sim(main, salt=0, max_steps=400_000)
    except Exception:
        raise
    res.vtime = (sends and max(sends) or 0.0)
    res.steps = len(trace)
    # rate bound over every window (honest clocks only)
    if not steps_fault and sends:
        s = sorted(sends)
        n = len(s)
        bcap = max(cap, F(initial))
        eps = 1e-6
        bad = None
        if n <= 400:
            for i in range(n):
                for j in range(i, n):
                    cnt = j - i + 1
                    if cnt > float(bcap) + float(rate) * (s[j] - s[i] + eps) + 1:
                        bad = (i, j, cnt)
                        break
                if bad:
                    break
        if bad:
            i, j, cnt = bad
            res.viol(PROP, "rate-bound", "more sends in a window than capacity + rate*L + 1",
                     f"{cnt} sends in [{s[i]}, {s[j]}] > {float(bcap)} + {float(rate)}*{s[j]-s[i]} + 1")
        res.stats["sends"] += n
    bursts = tuple((o[0], min(o[1], 6)) for sc in scripts for o in sc)
    res.sig = digest_of((str(tpp), period, str(initial), ncallers, bursts))
    res.digest = digest_of((trace, sorted(sends)))
    return res
