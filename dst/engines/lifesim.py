"""C14 - dispatcher life-cycle, fault isolation, bounded concurrency, logging restored.

Real code: BacktestingDispatcher / RealtimeDispatcher .run(), .stop(), TaskPool,
TaskGroup, logs.backtesting_log_mode. Simulated: producers, handlers, jobs, idle
handlers, the foreign task that stops or cancels, the loop and clocks.
Fault matrix: dispatcher x exit path x failing producer stage, enumerated by the
first draws of the tape (all cells are hit in every tier; evidence lists them).
"""
import asyncio
import functools
import collections
import datetime
import logging

from ..loop import run_sim, SimDeadlock, SimLimit, UTC
from ..runner import Result, digest_of

PROP = "C14"
EXIT_PATHS = ["exhaust", "stop_handler", "stop_job", "stop_foreign", "handler_err", "job_err",
              "prod_init", "prod_main", "cancel", "isolation", "stop_then_cancel"]

META = dict(
    engine="lifesim", level="fault_enumeration",
    level_text=("Fault enumeration x seeded schedules: every cell of dispatcher {backtesting, realtime} x exit path "
                "{exhausted, stop() from handler/job/foreign task, handler/job error with stop_on_handler_exceptions, "
                "producer failing in initialize/main (finalize failures as an independent modifier), external "
                "cancellation, non-stopping errors} is driven in every tier with seeded producers, handler "
                "durations, pool sizes and trigger instants; cells hit are listed in the evidence. Within a cell the "
                "search is sampling, not proof."),
    rule=("cell = (dispatcher, exit path); inside a cell: 1-3 producers {normal, early-returning, never-returning, "
          "failing in initialize/main/finalize}, max_concurrent in {1,2,3,50}, due events / due jobs / idle handlers "
          "competing for the pool, handler durations 0 .. 1000 s, trigger at a seeded step. Non-trivial: non-exhaustion "
          "exit with handlers in flight, or (realtime) pool full while a job and an event were due together. Distinct "
          "by (cell, outcome, producer modes, pool size, #in flight at trigger)."),
    components=dict(real=["basana.core.dispatcher.EventDispatcher.run/stop", "BacktestingDispatcher", "RealtimeDispatcher",
                          "basana.core.helpers.TaskPool", "TaskGroup", "basana.core.logs.backtesting_log_mode",
                          "gather_no_raise"],
                    simulated=["producers (scripted initialize/main/finalize)", "handlers, jobs, idle handlers",
                               "foreign stopping / cancelling task", "event loop, loop clock, wall clock"]),
    assumptions=["handlers do not suppress cancellation (the statement says in-flight handlers are cancelled, not awaited)",
                 "when a stop request and a producer error (or a cancellation) happen in the same run, either legal "
                 "outcome is accepted (no identity/timing demand while faults overlap)",
                 "external cancellation is injected once per run, at a seeded step (also while run() is cleaning up after a "
                 "stop: exit path stop_then_cancel); finalize() is counted when called"],
    probes_expected=["inflight_at_trigger", "rt_pool_full_job_and_event_due", "finalize_failed", "main_never_returns",
                     "main_returns_early", "init_failed_before_any_event", "log_record_after_failed_run"],
    states_measure="distinct (dispatcher, exit path, outcome, handlers in flight at trigger) tuples",
)


class ProducerError(Exception):
    pass


def run(tape, prop, tier):
    res = Result()
    realtime = tape.draw(2) == 1
    exit_path = EXIT_PATHS[tape.draw(len(EXIT_PATHS))]
    if realtime and exit_path == "exhaust":
        exit_path = "stop_foreign"
    maxc = tape.choice([1, 2, 3, 50, 1])
    nprod = 1 + tape.draw(3)
    failing = tape.draw(nprod)
    fin_fails = tape.chance(0.25)
    fin_failing = tape.draw(nprod)
    prods = []
    for i in range(nprod):
        prods.append(dict(init_delay=tape.choice([0.0, 0.1, 1.0]),
                          main_mode=tape.choice(["return", "forever", "work"]),
                          main_work=tape.choice([0.0, 0.5, 3.0]),
                          main_fail_after=tape.choice([0.0, 0.5, 3.0]),
                          fin_delay=tape.choice([0.0, 0.0, 0.5]),
                          nevents=1 + tape.draw(8),
                          times=None))
        prods[i]["times"] = sorted(tape.draw(100) / 10.0 for _ in range(prods[i]["nevents"]))
    nh = 1 + tape.draw(2)
    long_ok = exit_path not in ("exhaust", "isolation")
    dur_choices = [0.0, 0.2, 50.0, 1000.0] if long_ok else [0.0, 0.2, 2.0]
    D = 1 + tape.draw(8)
    durs = [(tape.choice(dur_choices), tape.draw(3)) for _ in range(D)]      # (sleep, yields before)
    herr = [tape.chance(0.3) if exit_path == "isolation" else False for _ in range(D)]
    njobs = tape.draw(6)
    jobs_spec = [(tape.draw(200) / 10.0 - 8.0, tape.choice(dur_choices if long_ok else [0.0, 0.3]),
                  tape.chance(0.3) if exit_path == "isolation" else False) for _ in range(njobs)]
    nidle = tape.draw(3) if realtime else 0
    idle_durs = [tape.choice([0.005, 0.02, 0.5]) for _ in range(nidle)]
    stop_at = 1 + tape.draw(12)
    if exit_path == "stop_then_cancel":
        stop_at = 1 + stop_at % 3
    foreign_delay = tape.choice([0.0, 0.05, 0.5, 3.0, 6.0])
    foreign_yields = tape.draw(6)
    stop_on_exc = exit_path in ("handler_err", "job_err") or (exit_path not in ("isolation", "exhaust") and tape.chance(0.2))
    salt = tape.draw(1000)
    # something (a handler, a lazily configured library) chains its own log record factory in while the run is on
    chain_factory = tape.chance(0.2)
    idle_boom = tape.chance(0.3)          # idle handlers that fail now and then
    res.sample = dict(log_factory_chained_during_run=chain_factory, dispatcher="realtime" if realtime else "backtesting", exit_path=exit_path, max_concurrent=maxc,
                      producers=[{k: v for k, v in p.items()} for p in prods], failing_producer=failing,
                      finalize_fails=(fin_failing if fin_fails else None), handlers_per_source=nh,
                      handler_durations=durs, jobs=jobs_spec, idle_handlers=idle_durs, stop_at_entry=stop_at,
                      foreign_delay=foreign_delay, stop_on_handler_exceptions=stop_on_exc)

    tr = []
    S = dict(ev_inflight=collections.Counter(), other_inflight=0, max_in=0, trig=None, trigs=[],
             handled=0, cancelled_handlers=0, entries=collections.Counter(), job_runs=collections.Counter(),
             perr=None, cancel_at=None, inflight_at_trig=None, both_due=False)
    out = {}
    viols = []

    def V(clause, msg):
        viols.append((clause, msg))

    async def main(loop):
        import basana as bs
        from basana.core import event, dt as bdt
        d = bs.realtime_dispatcher(maxc) if realtime else bs.backtesting_dispatcher(maxc)
        d.stop_on_handler_exceptions = stop_on_exc
        now0 = bdt.utc_now()

        def t(s):
            return now0 + datetime.timedelta(seconds=s)

        trig_event = asyncio.Event()

        def inflight():
            return len(S["ev_inflight"]) + S["other_inflight"]

        def note_in():
            n = inflight()
            if n > S["max_in"]:
                S["max_in"] = n

        def trig(kind):
            if S["trig"] is None:
                S["trig"] = (loop.time(), kind)
                S["inflight_at_trig"] = inflight()
            S["trigs"].append((loop.time(), len(tr), kind))
            trig_event.set()

        class SimEvent(event.Event):
            def __init__(self, when, eid):
                super().__init__(when)
                self.eid = eid

        class P(event.Producer):
            def __init__(self, i):
                self.i = i
                self.spec = prods[i]

            async def initialize(self):
                tr.append(("init_start", self.i, loop.time()))
                await asyncio.sleep(self.spec["init_delay"])
                if exit_path == "prod_init" and self.i == failing:
                    trig("prod")
                    S["perr"] = f"init{self.i}"
                    res.faults["producer_initialize_raises"] += 1
                    if not any(x[0] == "enter" for x in tr):
                        res.probes["init_failed_before_any_event"] += 1
                    raise ProducerError(S["perr"])
                tr.append(("init_done", self.i, loop.time()))

            async def main(self):
                tr.append(("main_start", self.i, loop.time()))
                if exit_path == "prod_main" and self.i == failing:
                    await asyncio.sleep(self.spec["main_fail_after"])
                    trig("prod")
                    S["perr"] = f"main{self.i}"
                    res.faults["producer_main_raises"] += 1
                    raise ProducerError(S["perr"])
                mode = self.spec["main_mode"]
                if mode == "forever":
                    res.probes["main_never_returns"] += 1
                    await asyncio.Event().wait()
                elif mode == "work":
                    await asyncio.sleep(self.spec["main_work"])
                else:
                    res.probes["main_returns_early"] += 1

            def finalize(self):
                # counted when called: a cancellation that lands inside the finalization phase may cancel the
                # coroutine before its first step, which is not a missing finalize() call
                tr.append(("fin", self.i, loop.time()))
                return self._finalize()

            async def _finalize(self):
                try:
                    await asyncio.sleep(self.spec["fin_delay"])
                finally:
                    tr.append(("fin_end", self.i, loop.time()))
                if fin_fails and self.i == fin_failing:
                    res.faults["producer_finalize_raises"] += 1
                    res.probes["finalize_failed"] += 1
                    raise ProducerError(f"fin{self.i}")

        producers = [P(i) for i in range(nprod)]
        eid = 0
        all_events = []
        srcs = []
        for i in range(nprod):
            evs = []
            for x in prods[i]["times"]:
                eid += 1
                evs.append(SimEvent(t(x - 12.0 if realtime else x), eid))
            all_events.extend(evs)
            srcs.append(event.FifoQueueEventSource(producer=producers[i], events=evs))

        def mk_handler(hid):
            async def h(ev):
                S["ev_inflight"][ev.eid] += 1
                note_in()
                S["entries"][(hid, ev.eid)] += 1
                tr.append(("enter", hid, ev.eid, loop.time()))
                try:
                    S["handled"] += 1
                    n = S["handled"]
                    if chain_factory and n == 1 and not realtime:
                        cur_factory = logging.getLogRecordFactory()

                        def chained(*a, **k):
                            r_ = cur_factory(*a, **k)
                            r_.library = "x"
                            return r_
                        logging.setLogRecordFactory(chained)
                        res.probes["log_factory_chained_during_run"] += 1
                    dur, yields = durs[(hid * 5 + ev.eid) % D]
                    for _ in range(yields):
                        await asyncio.sleep(0)
                    if n == stop_at:
                        if exit_path in ("stop_handler", "stop_then_cancel"):
                            trig("stop")
                            res.faults["stop_from_handler"] += 1
                            d.stop()
                        if exit_path == "handler_err":
                            trig("stop")
                            res.faults["handler_raises_stop_on_error"] += 1
                            raise RuntimeError("handler boom")
                    if herr[(hid * 5 + ev.eid) % D]:
                        res.faults["handler_raises"] += 1
                        if stop_on_exc:
                            trig("stop")
                        raise RuntimeError("handler boom (isolated)")
                    await asyncio.sleep(dur)
                    tr.append(("exit", hid, ev.eid, loop.time()))
                except asyncio.CancelledError:
                    S["cancelled_handlers"] += 1
                    if (hid + ev.eid) % 4 == 0:
                        # asynchronous clean-up on cancellation (does not suppress it)
                        S["cleanup"] = max(S.get("cleanup", 0.0), 0.05)
                        await asyncio.sleep(0.05)
                    raise
                finally:
                    S["ev_inflight"][ev.eid] -= 1
                    if not S["ev_inflight"][ev.eid]:
                        del S["ev_inflight"][ev.eid]
            return h

        async def call_with(fn, ev):
            return await fn(ev)

        def sync_wrapper(hid, h):
            # a plain callable returning an awaitable is a legal handler; it may raise before returning the coroutine
            def call(ev):
                if herr[(hid * 5 + ev.eid) % D] and exit_path == "isolation":
                    S["entries"][(hid, ev.eid)] += 1
                    res.faults["handler_raises_synchronously"] += 1
                    raise KeyError("adapter boom (synchronous)")
                return h(ev)
            return call

        hid = 0
        handlers_of = {}
        for si, s in enumerate(srcs):
            hs = []
            for _ in range(nh):
                hid += 1
                hs.append(hid)
                h_ = mk_handler(hid)
                if hid % 4 == 1:
                    # functools.partial objects and callable instances are legal handlers too
                    d.subscribe(s, functools.partial(call_with, h_))
                else:
                    d.subscribe(s, sync_wrapper(hid, h_) if hid % 3 == 0 else h_)
            handlers_of[si] = hs
        src_of_event = {}
        for si, s in enumerate(srcs):
            for ev in s._queue:
                src_of_event[ev.eid] = si

        job_when = {}
        for k, (off, dur, boom) in enumerate(jobs_spec):
            when = t(off - 6.0) if realtime else t(off)
            job_when[k] = when

            async def job(k=k, dur=dur, boom=boom, when=when):
                S["other_inflight"] += 1
                note_in()
                S["job_runs"][k] += 1
                tr.append(("job", k, loop.time()))
                try:
                    if k == 0 and exit_path == "stop_job":
                        trig("stop")
                        res.faults["stop_from_job"] += 1
                        d.stop()
                    if k == 0 and exit_path == "job_err":
                        trig("stop")
                        res.faults["job_raises_stop_on_error"] += 1
                        raise RuntimeError("job boom")
                    if boom:
                        res.faults["job_raises"] += 1
                        if stop_on_exc:
                            trig("stop")
                        raise RuntimeError("job boom (isolated)")
                    await asyncio.sleep(dur)
                finally:
                    S["other_inflight"] -= 1
            d.schedule(when, job)
        for k, dur in enumerate(idle_durs):
            async def idle(dur=dur, k=k):
                S["other_inflight"] += 1
                note_in()
                try:
                    await asyncio.sleep(dur)
                    S["idle_calls"] = S.get("idle_calls", 0) + 1
                    if idle_boom and S["idle_calls"] % 3 == k % 3:
                        res.faults["idle_handler_raises"] += 1
                        raise RuntimeError("idle handler boom")
                finally:
                    S["other_inflight"] -= 1
            d.subscribe_idle(idle)

        if realtime and maxc <= 2:
            due_jobs = sum(1 for w in job_when.values() if w <= now0)
            due_events = sum(1 for e in all_events if e.when <= now0)
            if due_jobs >= 1 and due_events >= maxc + 1:
                S["both_due"] = True
                res.probes["rt_pool_full_job_and_event_due"] += 1

        quiet = 20 + len(all_events) * (2.5 + 0.6 * nidle) + njobs * (1 + 0.6 * nidle)
        # the application has its own record factory (the standard recipe for adding context attributes)
        base_factory = logging.getLogRecordFactory()

        def app_factory(*a, **k):
            r_ = base_factory(*a, **k)
            r_.session = "app"
            return r_
        logging.setLogRecordFactory(app_factory)
        old_factory = logging.getLogRecordFactory()
        run_task = asyncio.ensure_future(d.run(stop_signals=[]))
        phase = dict(cleanup=False)

        async def foreign():
            if exit_path == "stop_then_cancel":
                # a cancellation that lands while run() is already cleaning up after a stop
                try:
                    await asyncio.wait_for(trig_event.wait(), quiet if realtime else 4000)
                except asyncio.TimeoutError:
                    if not run_task.done():
                        trig("stop")
                        d.stop()
                    return
                for _ in range(foreign_yields):
                    await asyncio.sleep(0)
                await asyncio.sleep(foreign_delay if foreign_delay < 1 else 0.25)
                if not run_task.done():
                    trig("cancel")
                    res.faults["external_cancellation_during_cleanup"] += 1
                    run_task.cancel()
                return
            await asyncio.sleep(foreign_delay)
            for _ in range(foreign_yields):
                await asyncio.sleep(0)
            if run_task.done():
                return
            if exit_path == "stop_foreign":
                trig("stop")
                res.faults["stop_from_foreign_task"] += 1
                d.stop()
                return
            if exit_path == "cancel":
                # only while run() is before its cleanup phase: finalize must not have started
                if True:
                    if d.stopped:
                        # the run is already winding down by itself (sources exhausted: the dispatch loop has called
                        # stop()); same situation as stop_then_cancel, where run() may return or raise the cancellation
                        trig("stop")
                        res.probes["cancel_lands_after_self_stop"] += 1
                    trig("cancel")
                    S["cancel_at"] = loop.time()
                    res.faults["external_cancellation"] += 1
                    run_task.cancel()
                    return
            # fall-back so that a realtime run (or a run whose trigger never fires) ends
            await asyncio.sleep(quiet if realtime else 4000)
            if not run_task.done():
                trig("stop")
                S["fallback"] = True
                d.stop()
        ft = asyncio.ensure_future(foreign())
        try:
            await asyncio.wait_for(asyncio.shield(run_task), 20000)
            out["o"] = ("return",)
        except asyncio.TimeoutError:
            out["o"] = ("hang",)
        except asyncio.CancelledError:
            out["o"] = ("cancelled",)
        except BaseException as x:   # noqa
            out["o"] = ("raise", type(x).__name__, str(x)[:200])
        out["t_end"] = loop.time()
        ft.cancel()
        # ---- logging afterwards (looked at before the harness restores anything)
        fac = logging.getLogRecordFactory()
        if fac is not old_factory:
            V("log-factory-not-restored", "logging.getLogRecordFactory() after run() is not the factory from before the run")
        try:
            rec = fac("x", logging.ERROR, __file__, 1, "after the run", (), None)
            if fac is old_factory and getattr(rec, "session", None) != "app":
                V("log-factory-not-restored", "records created after the run lack the attribute the application's factory adds")
            if abs(rec.created - loop.wall()) > 5.0:
                V("log-time-still-simulated", f"log record created after the run is stamped {rec.created}, wall clock is {loop.wall()}")
            if out["o"][0] != "return":
                res.probes["log_record_after_failed_run"] += 1
        except Exception as e:
            V("logging-fails-after-run", f"creating a log record after run() raises {type(e).__name__}: {e}")
        out["events"] = all_events
        out["handlers_of"] = handlers_of
        out["src_of_event"] = src_of_event
        out["job_when"] = job_when
        out["now0"] = now0
        return loop

    try:
        loop = run_sim(main, salt=salt, max_steps=1_500_000)
        res.vtime = loop.time()
        res.steps = loop.steps
    except SimDeadlock:
        out["o"] = ("deadlock",)
    except SimLimit as e:
        out["o"] = ("limit", str(e))

    o = out.get("o")
    desc = (f"[{'realtime' if realtime else 'backtesting'} max_concurrent={maxc} path={exit_path} outcome={o} "
            f"trigger={S['trig']}]")

    def viol(clause, msg):
        res.viol(PROP, clause, clause, msg + " " + desc)

    for c, m in viols:
        viol(c, m)
    if o[0] in ("hang", "deadlock", "limit"):
        viol("run-did-not-end", "run() did not end")
    elif o[0] == "raise" and o[1] != "ProducerError":
        viol("internal-error", f"run() raised {o[1]}: {o[2]}")
    else:
        kinds = [k for _, _, k in S["trigs"]]
        prod_at = next((i for i, k in enumerate(kinds) if k == "prod"), None)
        if o[0] == "raise" and prod_at is None:
            viol("unexpected-producer-error", "run() raised a producer error although no producer failed")
        if o[0] == "cancelled" and "cancel" not in kinds:
            viol("unexpected-cancellation", "run() raised CancelledError although nobody cancelled it")
        if "cancel" in kinds and o[0] != "cancelled" and "stop" not in kinds and "prod" not in kinds:
            viol("cancellation-swallowed", "run() was cancelled from outside (no stop requested) but did not raise CancelledError")
        if prod_at is not None and o[0] != "raise" and not any(k in ("stop", "cancel") for k in kinds[:prod_at]):
            viol("producer-error-lost", f"producer failed with {S['perr']} but run() did not raise it")
    inits_done = [i for i, x in enumerate(tr) if x[0] == "init_done"]
    mains = [i for i, x in enumerate(tr) if x[0] == "main_start"]
    if mains and (len(inits_done) < nprod or max(inits_done) > min(mains)):
        viol("main-before-all-initialized", "a producer's main() started before every initialize() had returned")
    if o[0] not in ("hang", "deadlock", "limit"):
        fins = collections.Counter(x[1] for x in tr if x[0] == "fin")
        if any(fins[i] != 1 for i in range(nprod)):
            viol("finalize-count", f"finalize() calls per producer: {[fins[i] for i in range(nprod)]}")
    if o[0] in ("return", "raise") and "cancel" not in [k for _, _, k in S["trigs"]]:
        # nobody cancelled run(): when it ends, every finalize() it started has run to its end (also when another
        # producer's finalize() failed)
        started = {x[1] for x in tr if x[0] == "fin"}
        ended = {x[1] for x in tr if x[0] == "fin_end" and x[2] <= out["t_end"] + 1e-9}
        if started - ended:
            viol("finalize-abandoned", f"run() ended while finalize() of producers {sorted(started - ended)} was still in progress "
                                       f"(finalize of producer {fin_failing if fin_fails else None} fails)")
    if S["max_in"] > maxc:
        viol("concurrency-bound", f"{S['max_in']} events/jobs/idle handlers in handling at once")
    if S["trigs"] and o[0] in ("return", "raise", "cancelled"):
        lat = out["t_end"] - S["trigs"][0][0]
        fin_budget = sum(p["fin_delay"] for p in prods) + 0.2 + S.get("cleanup", 0.0) * 2
        if lat > fin_budget:
            viol("not-prompt", f"run() ended {lat:.2f} s after the first stop/cancel/producer-failure trigger "
                               f"(finalize budget {fin_budget:.2f} s)")
    # isolation: with nothing stopping the run early, every pair is delivered and every due job ran
    if exit_path in ("exhaust", "isolation") and o[0] == "return" and not stop_on_exc and "events" in out:
        if True:
            for ev in out["events"]:
                for h in out["handlers_of"][out["src_of_event"][ev.eid]]:
                    if S["entries"][(h, ev.eid)] != 1:
                        viol("isolation", f"handler {h} got event {ev.eid} {S['entries'][(h, ev.eid)]} times although "
                                          f"only other handlers/jobs raised")
                        break
                else:
                    continue
                break
            for k, w in out["job_when"].items():
                if S["job_runs"][k] != 1:
                    viol("isolation", f"due job {k} ran {S['job_runs'][k]} times although only other handlers/jobs raised")
                    break
    if S["inflight_at_trig"]:
        res.probes["inflight_at_trigger"] += 1
    cell = f"{'rt' if realtime else 'bt'}:{exit_path}"
    res.stats["cell:" + cell] += 1
    res.stats["outcome:" + cell + ":" + o[0]] += 1
    res.nontrivial = bool((exit_path != "exhaust" and S["inflight_at_trig"]) or S["both_due"])
    res.sig = digest_of((cell, o[0], [p["main_mode"] for p in prods], maxc, S["inflight_at_trig"], fin_fails))
    res.states.add(hash((cell, o[0], S["inflight_at_trig"])) & 0xffffffff)
    res.digest = digest_of((tr, o, S["max_in"]))
    return res
