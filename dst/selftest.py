"""Determinism self-test: every engine, N seeds, twice in-process and again in
fresh interpreters under other PYTHONHASHSEED values; trace digests must agree."""
import json
import os
import subprocess
import sys

from . import registry, runner
from .tape import Tape


def digests(props, n, base=777):
    out = {}
    for prop in props:
        eng = registry.engine(prop)
        ds = []
        for i in range(n):
            seed = runner.run_seed(base, prop, i)
            t = Tape(seed=seed)
            r = eng.run(t, prop, "quick")
            # same hash seed: everything must agree; across hash seeds: xdigest (see DESIGN.md section 8)
            ds.append([r.digest, len(t.used), r.steps, r.xdigest if r.xdigest is not None else r.digest])
        out[prop] = ds
    return out


def determinism(tier):
    n = 12 if tier == "quick" else 60
    props = sorted(registry.TABLE)
    a = digests(props, n)
    b = digests(props, n)
    bad = [p for p in props if a[p] != b[p]]
    verif = os.path.dirname(os.path.dirname(os.path.abspath(__file__)))
    for hs in ("0", "1", "77"):
        env = dict(os.environ, PYTHONHASHSEED=hs)
        code = ("import sys,json; sys.path.insert(0,%r); sys.path.insert(0,%r);"
                "from dst import selftest; print(json.dumps(selftest.digests(%r,%d)))" %
                (verif, runner.REPO, props, n))
        p = subprocess.run([sys.executable, "-c", code], env=env, capture_output=True, text=True, timeout=3000)
        if p.returncode != 0:
            print("HARNESS-ERROR: child failed", p.stderr[-2000:])
            return 2
        c = json.loads(p.stdout.strip().splitlines()[-1])
        for pr in props:
            if hs == "0" and c[pr] != a[pr]:
                bad.append(f"{pr}@fresh-interpreter")      # same hash seed: the full trace digest must agree
            if [x[3] for x in c[pr]] != [x[3] for x in a[pr]]:
                bad.append(f"{pr}@hashseed{hs}")
    if bad:
        print("HARNESS-ERROR: nondeterministic engines:", sorted(set(bad)))
        return 2
    print(f"[selftest-determinism] {len(props)} properties x {n} seeds x (2 in-process + 3 fresh interpreters "
          f"with PYTHONHASHSEED 0, 1, 77): all digests equal")
    return 0
