"""Deterministic simulation with fault injection for gbeced/basana.

See /verif/DESIGN.md. Everything here runs the real basana code imported from
the tree named by VERIF_REPO (default /repo) under a virtual-time asyncio loop.
"""
