"""Which engine decides which property, and the per-tier budgets."""
import importlib

# property -> (engine module, {tier: (runs, soft wall budget seconds)})
TABLE = {
    "C01": ("exsim", dict(quick=(4000, 45), thorough=(150000, 540))),
    "C02": ("exsim", dict(quick=(4000, 45), thorough=(150000, 540))),
    "C03": ("exc03", dict(quick=(1500, 45), thorough=(60000, 540))),
    "C04": ("exsim", dict(quick=(4000, 45), thorough=(150000, 540))),
    "C05": ("exsim", dict(quick=(4000, 45), thorough=(150000, 540))),
    "C06": ("exsim", dict(quick=(4000, 45), thorough=(150000, 540))),
    "C07": ("exsim", dict(quick=(4000, 45), thorough=(150000, 540))),
    "C08": ("exsim", dict(quick=(4000, 45), thorough=(150000, 540))),
    "C09": ("exsim", dict(quick=(4000, 45), thorough=(150000, 540))),
    "C10": ("exsim", dict(quick=(4000, 45), thorough=(150000, 540))),
    "C11": ("exsim", dict(quick=(4000, 45), thorough=(150000, 540))),
    "C12": ("dispsim", dict(quick=(8000, 40), thorough=(400000, 480))),
    "C13": ("dispsim", dict(quick=(8000, 40), thorough=(400000, 480))),
    "C14": ("lifesim", dict(quick=(6000, 45), thorough=(300000, 540))),
    "C15": ("rtsim", dict(quick=(5000, 45), thorough=(60000, 540))),
    "C16": ("sigsim", dict(quick=(3000, 45), thorough=(150000, 540))),
    "C18": ("wssim", dict(quick=(2400, 50), thorough=(40000, 600))),
    "C19": ("barsim", dict(quick=(3000, 45), thorough=(150000, 540))),
    "C20": ("tbsim", dict(quick=(6000, 40), thorough=(200000, 480))),
}


def engine(prop):
    name = TABLE[prop][0]
    return importlib.import_module(f"dst.engines.{name}")


def budget(prop, tier):
    return TABLE[prop][1][tier]


def meta(prop):
    eng = engine(prop)
    m = eng.META
    if callable(m):
        return m(prop)
    if isinstance(m, dict) and prop in m and isinstance(m[prop], dict) and "engine" in m[prop]:
        return m[prop]
    return m
