#!/venv/bin/python
"""Runs the pinned baseline suite on a tree (default /repo) and compares the set of passing tests with
/root/.vp/BASELINE.json's stable_pass list. Exit 0 iff every baseline test still passes."""
import json, os, subprocess, sys, tempfile
import xml.etree.ElementTree as ET
repo = sys.argv[1] if len(sys.argv) > 1 else "/repo"
base = json.load(open("/root/.vp/BASELINE.json"))
fd, xmlp = tempfile.mkstemp(suffix=".xml"); os.close(fd)
env = dict(os.environ); env.pop("BASANA_VERIF", None)
subprocess.run(["/venv/bin/python", "-m", "pytest", "-q", "-p", "no:cacheprovider", "--timeout=900",
                "--continue-on-collection-errors", f"--junitxml={xmlp}"], cwd=repo, env=env,
               stdout=subprocess.DEVNULL, stderr=subprocess.DEVNULL)
passed = set()
for tc in ET.parse(xmlp).getroot().iter("testcase"):
    if not any(ch.tag in ("failure", "error", "skipped") for ch in tc):
        passed.add(f"{tc.get('classname')}::{tc.get('name')}")
os.unlink(xmlp)
missing = sorted(set(base["stable_pass"]) - passed)
print(f"baseline tests: {len(base['stable_pass'])}, still passing: {len(base['stable_pass']) - len(missing)}, total passing now: {len(passed)}")
for m in missing[:20]:
    print("  NOT PASSING:", m)
sys.exit(1 if missing else 0)
