#!/venv/bin/python
"""Runs the registered quick checks against every seeded breaking change under /verif/seeded/<id>/.

Each change (patch.diff) is applied to a throw-away export of /repo's HEAD (never to /repo itself); the property's
quick check is pointed at it with VERIF_REPO. Results go to /verif/seeded/README.md and
/verif/evidence/sensitivity.json. Usage: tools/run_seeded.py [id ...] [--all-props]
"""
import json
import os
import re
import shutil
import subprocess
import sys
import tempfile
import time

VERIF = os.path.dirname(os.path.dirname(os.path.abspath(__file__)))
SEEDED = os.path.join(VERIF, "seeded")
args = [a for a in sys.argv[1:] if not a.startswith("--")]
ids = args or sorted(d for d in os.listdir(SEEDED) if os.path.isdir(os.path.join(SEEDED, d)))
results = {}
prev_path = os.path.join(VERIF, "evidence", "sensitivity.json")
if os.path.exists(prev_path):
    try:
        results = json.load(open(prev_path)).get("results", {})
    except Exception:
        results = {}
tmp = tempfile.mkdtemp(prefix="seeded_")
try:
    for mid in ids:
        d = os.path.join(SEEDED, mid)
        meta = json.load(open(os.path.join(d, "meta.json")))
        tree = os.path.join(tmp, mid)
        os.makedirs(tree)
        subprocess.run(f"git -C /repo archive HEAD basana | tar -x -C {tree}", shell=True, check=True)
        p = subprocess.run(["patch", "-p1", "-s", "-d", tree, "-i", os.path.join(d, "patch.diff")], capture_output=True, text=True)
        if p.returncode != 0:
            results[mid] = dict(property=meta["property"], error="patch does not apply: " + (p.stdout + p.stderr)[-300:])
            print(mid, "PATCH FAILED", p.stdout[-200:], p.stderr[-200:])
            continue
        props = [meta["property"]] + [x for x in meta.get("also_check", []) if x != meta["property"]]
        det = {}
        for prop in props:
            t0 = time.time()
            env = dict(os.environ, VERIF_REPO=tree, VERIF_EVIDENCE_DIR=os.path.join(tmp, "ev"),
                       VERIF_REPLAY_DIR=os.path.join(tmp, "rp"))
            env.pop("VERIF_SEED", None)
            r = subprocess.run([os.path.join(VERIF, "check"), prop, "--tier", "quick"], env=env, capture_output=True, text=True)
            clauses = re.findall(r"clause=(\S+)", r.stdout)
            det[prop] = dict(exit=r.returncode, clauses=sorted(set(clauses)), wall_s=round(time.time() - t0, 1),
                             harness_error=("HARNESS-ERROR" in r.stdout))
            print(f"{mid:28} {prop}: exit {r.returncode} {sorted(set(clauses))} {det[prop]['wall_s']}s"
                  + (" HARNESS-ERROR" if det[prop]["harness_error"] else ""))
        results[mid] = dict(property=meta["property"], needs=meta.get("needs"), summary=meta.get("summary"),
                            detected=any(v["exit"] == 1 for v in det.values()), by=det)
        shutil.rmtree(tree, ignore_errors=True)
finally:
    shutil.rmtree(tmp, ignore_errors=True)
os.makedirs(os.path.join(VERIF, "evidence"), exist_ok=True)
json.dump(dict(results=results, note="quick tier, default seed; a change counts as detected when the property's "
               "check exits 1 with a VIOLATION line"), open(prev_path, "w"), indent=1)
lines = ["# Seeded breaking changes", "",
         "Written independently (sub-agents that saw only the property text and a scratch worktree), confirmed by hand "
         "(unmodified tree: demo passes; with the change: the 226 baseline tests still pass, the demo fails), kept as "
         "`<id>/patch.diff`, `<id>/demo.py`, `<id>/meta.json`. `tools/run_seeded.py` applies each to a throw-away export of "
         "/repo and runs the property's quick check against it.", "",
         "| id | property | what it needs to manifest | detected by quick check | clauses reported |", "|---|---|---|---|---|"]
for mid in sorted(results):
    r = results[mid]
    if "error" in r:
        lines.append(f"| {mid} | {r['property']} | - | ERROR: {r['error'][:60]} | |")
        continue
    cl = "; ".join(f"{p}: {', '.join(v['clauses']) or '-'}" for p, v in r["by"].items())
    lines.append(f"| {mid} | {r['property']} | {(r.get('needs') or '').replace('|', '/')[:160]} | "
                 f"{'yes' if r['detected'] else 'NO'} | {cl} |")
open(os.path.join(SEEDED, "README.md"), "w").write("\n".join(lines) + "\n")
print("detected", sum(1 for r in results.values() if r.get("detected")), "of", len(results))
