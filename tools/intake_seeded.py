#!/venv/bin/python
"""Confirms and files one independently written breaking change.

usage: tools/intake_seeded.py <id> <property> <patch.diff> <demo.py> [<notes.md>] [--needs "..."] [--summary "..."]

Confirmation (all on throw-away exports of /repo HEAD under a temp dir, never on /repo):
  1. unmodified tree: the demonstration passes (exit 0);
  2. with the change: it applies, the 226 baseline tests still pass (tools/baseline.py), the demonstration fails.
Only then /verif/seeded/<id>/{patch.diff,demo.py,notes.md,meta.json} is written.
"""
import argparse
import json
import os
import shutil
import subprocess
import sys
import tempfile

VERIF = os.path.dirname(os.path.dirname(os.path.abspath(__file__)))
ap = argparse.ArgumentParser()
ap.add_argument("id")
ap.add_argument("property")
ap.add_argument("patch")
ap.add_argument("demo")
ap.add_argument("notes", nargs="?")
ap.add_argument("--needs", default="")
ap.add_argument("--summary", default="")
ap.add_argument("--also", default="")
a = ap.parse_args()

tmp = tempfile.mkdtemp(prefix="intake_")
ran = []
try:
    clean = os.path.join(tmp, "clean")
    mut = os.path.join(tmp, "mut")
    for d in (clean, mut):
        os.makedirs(d)
        subprocess.run(f"git -C /repo archive HEAD | tar -x -C {d}", shell=True, check=True)
    p = subprocess.run(["patch", "-p1", "-s", "-d", mut, "-i", os.path.abspath(a.patch)], capture_output=True, text=True)
    if p.returncode != 0:
        print("REJECTED: patch does not apply to /repo HEAD:", p.stdout[-400:], p.stderr[-400:])
        sys.exit(1)

    def demo(tree):
        env = dict(os.environ, PYTHONPATH=tree, PYTHONDONTWRITEBYTECODE="1")
        cmd = ["/venv/bin/python", os.path.abspath(a.demo)]
        if os.path.basename(a.demo).startswith("test_"):
            cmd = ["/venv/bin/python", "-m", "pytest", "-q", "-p", "no:cacheprovider", os.path.abspath(a.demo)]
        r = subprocess.run(cmd, cwd=tree, env=env, capture_output=True, text=True, timeout=600)
        return r.returncode, (r.stdout + r.stderr)[-600:]
    rc_clean, out_clean = demo(clean)
    ran.append(f"demo on unmodified export: exit {rc_clean}")
    if rc_clean != 0:
        print("REJECTED: demonstration fails on the unmodified tree:\n", out_clean)
        sys.exit(1)
    rc_mut, out_mut = demo(mut)
    ran.append(f"demo with the change: exit {rc_mut}")
    if rc_mut == 0:
        print("REJECTED: demonstration passes with the change applied")
        sys.exit(1)
    b = subprocess.run([os.path.join(VERIF, "tools", "baseline.py"), mut], capture_output=True, text=True)
    ran.append("baseline suite with the change: " + b.stdout.strip().splitlines()[0])
    if b.returncode != 0:
        print("REJECTED: the baseline suite does not pass with the change:\n", b.stdout[-800:])
        sys.exit(1)
    d = os.path.join(VERIF, "seeded", a.id)
    os.makedirs(d, exist_ok=True)
    shutil.copy(a.patch, os.path.join(d, "patch.diff"))
    shutil.copy(a.demo, os.path.join(d, "demo.py"))
    if a.notes and os.path.exists(a.notes):
        shutil.copy(a.notes, os.path.join(d, "notes.md"))
    meta = dict(id=a.id, property=a.property, summary=a.summary, needs=a.needs,
                also_check=[x for x in a.also.split(",") if x],
                origin="written by a sub-agent that saw only the property text and a scratch worktree of /repo",
                confirmed=ran, repo_head=subprocess.run("git -C /repo rev-parse --short HEAD", shell=True, capture_output=True,
                                                        text=True).stdout.strip(),
                demo_failure_tail=out_mut[-300:])
    json.dump(meta, open(os.path.join(d, "meta.json"), "w"), indent=1)
    print("ACCEPTED", a.id, ran)
finally:
    shutil.rmtree(tmp, ignore_errors=True)
