#!/venv/bin/python
"""For every `fixed` entry of known_findings.json: replay its demonstration tape(s) on the parent of the fixing
commit (must report the violation) and on the fixing commit itself (must pass). Uses throw-away exports of
/repo's history under a temp dir; nothing is left behind."""
import glob
import json
import os
import re
import shutil
import subprocess
import sys
import tempfile

VERIF = os.path.dirname(os.path.dirname(os.path.abspath(__file__)))
kf = json.load(open(os.path.join(VERIF, "known_findings.json")))["findings"]
tmp = tempfile.mkdtemp(prefix="vf_")
ok = True
trees = {}


def tree(rev):
    if rev not in trees:
        d = os.path.join(tmp, rev.replace("^", "_p"))
        os.makedirs(d)
        subprocess.run(f"git -C /repo archive {rev} basana | tar -x -C {d}", shell=True, check=True)
        trees[rev] = d
    return trees[rev]


try:
    for f in kf:
        if f.get("status") != "fixed":
            continue
        files = re.findall(r"findings/[\w\-.*]+\.json", f["demonstration"])
        paths = []
        for pat in files:
            paths += sorted(glob.glob(os.path.join(VERIF, pat)))
        for path in paths:
            prop = json.load(open(path))["property"]
            res = {}
            for label, rev in (("before", f["commit"] + "^"), ("after", f["commit"])):
                env = dict(os.environ, VERIF_REPO=tree(rev))
                p = subprocess.run([os.path.join(VERIF, "check"), prop, "--replay", path], env=env,
                                   capture_output=True, text=True)
                res[label] = p.returncode
            good = res["before"] == 1 and res["after"] == 0
            ok = ok and good
            print(f"{'ok  ' if good else 'FAIL'} {f['id']:4} {prop} {os.path.basename(path)}: "
                  f"before fix exit {res['before']}, after fix exit {res['after']}")
finally:
    shutil.rmtree(tmp, ignore_errors=True)
sys.exit(0 if ok else 1)
