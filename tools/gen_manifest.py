#!/venv/bin/python
"""Regenerates /verif/MANIFEST.json from dst/registry.py (claimed checks) so the
manifest is valid at every commit."""
import json
import os
import sys

VERIF = os.path.dirname(os.path.dirname(os.path.abspath(__file__)))
sys.path.insert(0, VERIF)
sys.path.insert(0, os.environ.get("VERIF_REPO", "/repo"))
from dst import registry  # noqa: E402

props = [json.loads(l) for l in open(os.path.join(VERIF, "properties.jsonl"))]
ids = [p["id"] for p in props]

NOT_APPLICABLE = {
    "C17": ("pure function of its input: formatting of decimals on the way out and decoding of payloads on the way "
            "in involve no schedule, clock, fault or interleaving, so deterministic simulation adds nothing over "
            "plain input generation (DESIGN.md section 7)"),
}

checks = []
engines = {}
for pid in ids:
    if pid not in registry.TABLE:
        continue
    m = registry.meta(pid)
    engines.setdefault(m["engine"], []).append(pid)
    checks.append(dict(
        property_id=pid,
        quick_cmd=f"./check {pid} --tier quick",
        thorough_cmd=f"./check {pid} --tier thorough",
        evidence_file=f"/verif/evidence/{pid}.json",
        replay_cmd_template=f"./check {pid} --replay {{path}}",
        engine=m["engine"],
        level_claimed=dict(
            category=m["level"],
            text=m.get("level_text") or (
                "Seeded search over many short simulated runs of the real code under a virtual-time event loop "
                "with injected faults; oracles are invariants checked during each run and checks over the recorded "
                "history against a small reference model. A clean batch is evidence, not proof."),
            design_ref=m.get("design_ref", "DESIGN.md section 5, " + pid),
        ),
        level_note="; ".join(m["assumptions"]) + "; asyncio, aiohttp and yarl are trusted as shipped; only schedules "
                   "real asyncio can produce (FIFO ready queue) are explored",
        technique=m.get("technique", "deterministic simulation with fault injection (seeded schedule/fault search, "
                                     "reference-model oracle, tape replay + delta-debugging)"),
    ))

na = []
for pid in ids:
    if pid in registry.TABLE:
        continue
    reason = NOT_APPLICABLE.get(pid, "check not built yet (work in progress; see DESIGN.md section 5 for the plan)")
    na.append(dict(property_id=pid, reason=reason))

manifest = dict(
    version=1,
    setup_cmd=("/venv/bin/python -c \"import sys; sys.path.insert(0,'/repo'); import basana, aiohttp, yarl; "
               "print('setup ok', basana.__file__)\""),
    hooks=dict(
        guard="BASANA_VERIF",
        enable="no hook in /repo is needed: every seam is reached from outside (DESIGN.md section 2.2); "
               "checks import basana from /repo's working tree (VERIF_REPO overrides)",
        baseline_off_cmd="cd /repo && /venv/bin/python -m pytest -ra -q -p no:cacheprovider --timeout=900 "
                         "--continue-on-collection-errors --junitxml=/tmp/basana_baseline.junit.xml",
        source_commits=[],
        add_only=True,
    ),
    engines=[dict(name=k, path=f"dst/engines/{k}.py", serves_properties=v,
                  kind_free_text="deterministic simulation engine (virtual-time asyncio loop, seeded tape)")
             for k, v in sorted(engines.items())],
    checks=checks,
    notes=("All checks: ./check <id> [--tier quick|thorough] [--replay FILE]; exit 0 held / 1 VIOLATION / 2 harness "
           "error. VERIF_SEED, VERIF_TIER, VERIF_REPO, VERIF_WORKERS are honoured. Replay files are choice tapes "
           "(DESIGN.md section 2.3). ./check selftest-determinism re-runs seeds in fresh interpreters under other "
           "PYTHONHASHSEED values."),
    not_applicable=na,
)
with open(os.path.join(VERIF, "MANIFEST.json"), "w") as f:
    json.dump(manifest, f, indent=1)
print("claimed:", [c["property_id"] for c in checks])
print("not claimed:", [n["property_id"] for n in na])
