#!/bin/bash
# Runs every registered quick (or $1=thorough) check on /repo and prints one summary line per property.
cd "$(dirname "$0")/.." || exit 2
tier="${1:-quick}"
rc=0
for p in $(/venv/bin/python -c "import json;print(' '.join(c['property_id'] for c in json.load(open('MANIFEST.json'))['checks']))"); do
  out=$(./check "$p" --tier "$tier" 2>&1); e=$?
  echo "$out" | grep -E "VIOLATION|KNOWN-FINDING|HARNESS-ERROR|^\[" | cut -c1-300
  [ $e -ne 0 ] && rc=$e
done
exit $rc
